#!/usr/bin/env bash
# Offline setup: check the toolchain and warm the Go build cache. Checks do not
# depend on anything this script leaves behind.
set -eu
export GOFLAGS=-mod=mod GOPROXY=off GOSUMDB=off GOTOOLCHAIN=local
cd "$(dirname "$0")/mon"
go version
T="$(mktemp -d)"; trap 'rm -rf "$T"' EXIT
go build -tags verif -o "$T/" ./cmd/...
(cd /repo && go build -tags verif -o "$T/gnark-mbu" .)
echo "setup ok"
