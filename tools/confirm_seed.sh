#!/usr/bin/env bash
# tools/confirm_seed.sh <seedname e.g. C01a>  — independently confirm a seeded change in its scratch worktree:
# builds, baseline suite passes with it, demo fails with it and passes without it. Writes /tmp/seeded_out/<seed>/CONFIRM.txt
set -u
S="$1"; WT=/tmp/wt/$S; OUT=/tmp/seeded_out/$S
export GOFLAGS=-mod=mod GOPROXY=off GOSUMDB=off GOTOOLCHAIN=local
cd "$WT" || exit 3
R="$OUT/CONFIRM.txt"; : > "$R"
git checkout -q -- . ; git clean -fdq
git apply "$OUT/patch.diff" || { echo "APPLY=fail" >> "$R"; exit 1; }
echo "APPLY=ok files=$(git diff --stat | tail -1)" >> "$R"
if go build ./... >/dev/null 2>"$OUT/confirm_build.log"; then echo "BUILD=ok" >> "$R"; else echo "BUILD=fail" >> "$R"; fi
# baseline suite with the change (3 flaky root tests may fail with connection refused)
flock /tmp/itest.lock go test -mod=mod -json -vet=off -count=1 -timeout 25m ./... > "$OUT/confirm_suite.json" 2>&1
python3 - "$OUT/confirm_suite.json" >> "$R" <<'PY'
import json,sys
stable=set(json.load(open('/root/.vp/BASELINE.json'))['stable_pass'])
res={}
for l in open(sys.argv[1]):
    try: e=json.loads(l)
    except: continue
    if e.get('Test') and e.get('Action') in('pass','fail'):
        k=e['Package']+'::'+e['Test']
        # a test may run twice (TestMain runs m.Run twice): fail wins
        if res.get(k)!='fail': res[k]=e['Action']
missing=[k for k in stable if res.get(k)!='pass']
print("SUITE=%s stable_pass=%d/%d missing=%s"%("ok" if not missing else "FAIL", len(stable)-len(missing), len(stable), missing[:5]))
PY
# demo with the change
( bash "$OUT/run_demo.sh" > "$OUT/confirm_demo_with.log" 2>&1 ); echo "DEMO_WITH_CHANGE_EXIT=$?" >> "$R"
git checkout -q -- . ; git clean -fdq
( bash "$OUT/run_demo.sh" > "$OUT/confirm_demo_without.log" 2>&1 ); echo "DEMO_WITHOUT_CHANGE_EXIT=$?" >> "$R"
git checkout -q -- . ; git clean -fdq
cat "$R"
