#!/usr/bin/env bash
# tools/mutant.sh <patch.diff> <ID> [tier]  — apply a seeded change to /repo, run the check, undo it.
# The evidence file of the property is preserved (a mutant run must not overwrite committed evidence).
set -u
PATCH="$1"; ID="$2"; TIER="${3:-quick}"
cd /verif
if [ -n "$(git -C /repo status --porcelain)" ]; then echo "/repo is dirty; refusing" >&2; exit 3; fi
[ -f evidence/$ID.json ] && cp evidence/$ID.json /tmp/.evid_$ID.bak
git -C /repo apply "$PATCH" || { echo "patch does not apply" >&2; exit 3; }
mkdir -p /tmp/mutlogs
LOG=/tmp/mutlogs/$(basename $(dirname "$PATCH"))_${ID}_$TIER.log
./check "$ID" "$TIER" >"$LOG" 2>&1; RC=$?
git -C /repo checkout -- .
rm -rf replays/$ID
[ -f /tmp/.evid_$ID.bak ] && mv /tmp/.evid_$ID.bak evidence/$ID.json
echo "mutant $(basename $(dirname "$PATCH")) vs $ID $TIER: exit=$RC violations=$(grep -c '^VIOLATION' "$LOG") log=$LOG"
grep -m3 'violation key' "$LOG"
exit 0
