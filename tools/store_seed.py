#!/usr/bin/env python3
"""tools/store_seed.py <seed> <property> <caught_by csv> <needs...>  — copy a confirmed seeded change from /tmp/seeded_out/<seed> to /verif/seeded/<seed>/ with meta.json."""
import json, os, shutil, sys, glob, re
seed, prop, caught = sys.argv[1], sys.argv[2], sys.argv[3].split(',')
needs = ' '.join(sys.argv[4:])
src = f'/tmp/seeded_out/{seed}'; dst = f'/verif/seeded/{seed}'
conf = dict(l.strip().split('=',1) for l in open(f'{src}/CONFIRM.txt') if '=' in l)
assert conf.get('BUILD')=='ok' and conf.get('SUITE','').startswith('ok') and conf.get('DEMO_WITH_CHANGE_EXIT')!='0' and conf.get('DEMO_WITHOUT_CHANGE_EXIT')=='0', conf
os.makedirs(dst, exist_ok=True)
for f in os.listdir(src):
    if f.startswith('confirm_') or f.endswith('.log') or f.endswith('.json') or f.endswith('.txt') and f!='CONFIRM.txt': continue
    if os.path.isfile(f'{src}/{f}') and os.path.getsize(f'{src}/{f}') < 200000: shutil.copy(f'{src}/{f}', dst)
    if os.path.isdir(f'{src}/{f}') and f.startswith('demo'): shutil.copytree(f'{src}/{f}', f'{dst}/{f}', dirs_exist_ok=True)
det = {}
for c in caught:
    log = glob.glob(f'/tmp/mutlogs/{seed}_{c}_quick.log')
    if log:
        t = open(log[0]).read()
        v = [l.strip() for l in t.splitlines() if 'violation key' in l]
        det[c] = {"check": f"./check {c} quick", "violation_lines": len(re.findall(r'^VIOLATION', t, re.M)), "first_violation": (v[0][:400] if v else None)}
meta = {
  "seed": seed, "property": prop,
  "needs_to_manifest": needs,
  "files_changed": conf.get('APPLY',''),
  "confirmed_by_me": {
     "where": "scratch git worktree of /repo HEAD under /tmp/wt (removed afterwards)",
     "ran": ["git apply patch.diff", "go build ./...", "flock /tmp/itest.lock go test -mod=mod -json -vet=off -count=1 -timeout 25m ./...  (all 54 stable baseline tests pass)", "sh run_demo.sh with the change (fails)", "git checkout -- . ; sh run_demo.sh without the change (passes)"],
     "build": conf.get('BUILD'), "suite": conf.get('SUITE'), "demo_with_change_exit": conf.get('DEMO_WITH_CHANGE_EXIT'), "demo_without_change_exit": conf.get('DEMO_WITHOUT_CHANGE_EXIT')},
  "detected_by": det,
  "how_to_rerun": f"git -C /repo apply /verif/seeded/{seed}/patch.diff; ./check <ID> quick; git -C /repo checkout -- .   (or tools/mutant.sh /verif/seeded/{seed}/patch.diff <ID>)",
}
json.dump(meta, open(f'{dst}/meta.json','w'), indent=1)
print(seed, 'stored;', {k:v['violation_lines'] for k,v in det.items()})
