#!/usr/bin/env python3
"""Regenerates the seeded-changes table of DESIGN.md (between the SEEDED-TABLE markers) from seeded/*/meta.json."""
import json, glob, re
rows=[]
for d in sorted(glob.glob('/verif/seeded/*/meta.json')):
    m=json.load(open(d))
    caught=', '.join(f"{k} ({v['violation_lines']})" for k,v in m['detected_by'].items())
    rows.append(f"| {m['seed']} | {m['property']} | {m['needs_to_manifest']} | {caught} |")
table='| seed | property | needs, in order to manifest | caught by (VIOLATION lines) |\n|---|---|---|---|\n'+'\n'.join(rows)+f'\n\n({len(rows)} seeded changes.)\n'
p='/verif/DESIGN.md'
s=open(p).read()
s=re.sub(r'<!-- SEEDED-TABLE-BEGIN -->.*?<!-- SEEDED-TABLE-END -->', '<!-- SEEDED-TABLE-BEGIN -->\n'+table.replace('\\','\\\\')+'<!-- SEEDED-TABLE-END -->', s, flags=re.S)
open(p,'w').write(s)
print(len(rows),'rows')
