#!/usr/bin/env python3
"""Regenerates /verif/MANIFEST.json from the table below and validates it."""
import json, os, sys
HERE = os.path.dirname(os.path.dirname(os.path.abspath(__file__)))

# id -> (monitor, level, technique, level text, level note, design ref)
CHECKS = {
 "C13": ("svcmon", "exploration",
         "runtime monitor: Go race detector on the real server under concurrent clients and hook delays + per-request oracle + event-log interleaving coverage",
         "A -race -tags verif build of the server is driven by rounds of 2..16 clients released together, under three hook-delay profiles that widen the read/decode/prove/write windows and a barrier profile that releases handlers in pairs right before a proof is serialised and written; requests include equal-length valid bodies, bodies arriving in two TCP segments and valid/invalid twins with the same input hash; the rounds are repeated on the plain binary; causal oracles: while one client's upload is pending inside the handler the others must be answered, and after clients hung up on complete requests the next requests must be answered. Every response is judged by its own request's oracle (proof verifies for THIS hash; deterministic error bodies equal the response the same request gets alone) and the race log must be empty. Evidence reports client/server-side overlap and distinct interleaving signatures. Held on the schedules produced.",
         "Schedules are those the OS and the delay profiles produced; the race detector only sees executed accesses.",
         "DESIGN.md §C13"),
 "C14": ("svcmon", "exploration",
         "runtime monitor: start/stop cycles in a worker process and on the real CLI with requests confirmed in flight by the gauge and held by hook delays; completion/rebind/exit-status/deadlock oracles",
         "(A) server.Run/RequestStop/AwaitStop cycles on the same two addresses in a child worker (a panic or deadlock ends only the worker and is reported with its stack): stop immediately (start delayed by hooks), after ports answer, with 1-4 requests confirmed in flight at chosen handler stages, after completion, a long hold of 8 s (35 s thorough) past the stop, rapid restarts; a server-side ordering oracle from the hook event log (no handler event after the last job finished shutting down); (B) `gnark-mbu start` + SIGINT with the same in-flight timings, incl. SIGINT repeated while the drain is in progress, requests that have not read their body yet, and a /metrics request in flight on the metrics listener. Every in-flight client must get its specified response, addresses must bind immediately, exit status 0. Held on the cycles run.",
         "SIGINT before the handler is installed is out of scope; watchdog >= 120 s turns into a violation only for AwaitStop/exit.",
         "DESIGN.md §C14"),
 "C09": ("svcmon", "exploration",
         "runtime monitor: hostile request history against a real server child, per-request status/code/proof oracle, liveness probe, crash-mark scan",
         "One long PRNG history per mode on one `gnark-mbu start` instance: non-POST methods, ~16 kinds of malformed bodies incl. body-read failures produced on the wire, wrong shapes (each array +-1/empty/10^4), every invalid batch class, wrong hashes, valid batches in four number styles (also padded with MBs of whitespace, and sent chunked); two uploads delivered over 33 s (130 s) stay in flight during the history; pending-upload and abandoned-client oracles as in C13. The server runs with small hook delays and six clients so that requests overlap inside the handler. Every 200 body is verified as a Groth16 proof for the request's own hash with the vk held by the monitor; after every request a probe must be answered and stderr is scanned. Held on the requests sent.",
         "Classes whose outcome the property leaves open accept either documented outcome; error messages are not compared.",
         "DESIGN.md §C09"),
 "C20": ("svcmon", "exploration",
         "runtime monitor: recorded request/scrape history checked with porcupine against a per-(method,code) counter model + conservation after quiescence",
         "Client-boundary history of sequential and concurrent (8/16 clients) mixed requests with a scraper running throughout; porcupine checks the history of these phases (request = increment inside its interval, scrape = read) partitioned by (method, code), up to the last quiescent moment before the burst phase; after every burst the scraped totals must equal the responses received so far; after quiescence the scraped totals must equal the client tally and the gauge be 0; gauge bounded by overlapping operations on every scrape; scrapes must complete while proofs are in flight; one request stays in flight for 33 s (130 s thorough); with six requests held inside the handler a scrape must be answered and show them; 250 (1500) bursts of 8-32 cheap concurrent requests each followed by a quiescent scrape whose gauge must read 0; 3 (8) successive server instances inside one process, each required to account for exactly the responses it sent (scrape-after minus scrape-before) with the gauge present and 0. Held on the histories recorded.",
         "Assumes promhttp increments before the handler chain returns and small responses are flushed afterwards (checked implicitly: otherwise porcupine would reject the unchanged tree).",
         "DESIGN.md §C20"),
 "C12": ("climon", "exploration",
         "runtime monitor: digests of the constraint system from every construction path, repeated/concurrent/fresh-process runs compared with each other",
         "For each dimension the SHA-256 of the constraint system from BuildR1CS*, Setup*, Import*Setup, 8 concurrent compilations, fresh r1cs processes under several GOMAXPROCS and the cs section of setup/import-setup keys files must all be equal (no pinned constant); interleaved multi-/single-block and same-batch/other-depth compile sequences; compile-only path comparison at depth*batch >= 256; public wires [1, InputHash]; Solidity uint256[1]; deletion depth 32 refused on every path incl. import and depths 33..65536 (incl. 63, 64, 65, 127, 128, 255, 256) refused at build time; thorough runs the monitor under -race. Held on the runs made.",
         "Schedules are those the OS produced; digest of WriteTo identifies the system.",
         "DESIGN.md §C12"),
 "C17": ("climon", "exploration",
         "runtime monitor: extraction output (in-process repeated, fresh processes) compared byte-wise and per definition with the committed Lean model",
         "every successful extraction must be a complete model and unsupported depths (32, 33, 64) must never succeed with a partial one; ExtractLean(30,4) three times in one process and extract-circuit in fresh processes under several GOMAXPROCS and environments (MTB_MODE and other exported variables, locale, HOME/TMPDIR) must equal formal-verification/FormalVerification.lean (54 definitions compared individually); all SemaphoreMTB names used by the proof files must be defined; a sweep revisiting dimensions must be deterministic; CLI extraction also writes over an existing longer file. The Lean proofs are not rebuilt (toolchain absent).",
         "Model text equality, not proof re-checking.",
         "DESIGN.md §C17"),
 "C19": ("climon", "exploration",
         "runtime monitor: real binary in fresh processes; stdout/exit-status oracle from in-monitor Groth16 verification",
         "setup -> gen-test-params | prove -> verify on real keys files (incl. a dimension whose parameter document exceeds 4 KiB; > 64 KiB in thorough); prove on independently written documents (short roots, four number styles) with stdout required to be exactly one proof; verify on CLI proofs, re-randomised valid derivatives (short coordinates first, hashes with odd hex length), tampered/reordered/sign-flipped proofs, wrong hashes, other-mode keys, garbage; unprovable parameters; six mode spellings (incl. absent) on six commands; missing/empty/truncated/directory keys; gen-test-params over dimensions up to the full tree; setup re-run over a path that already holds the other mode's keys. Held on the invocations made.",
         "Verify oracle = gnark Verify with the vk from export-vk.",
         "DESIGN.md §C19"),
 "C03": ("circmon", "exploration",
         "runtime monitor: full compiled circuits solved with chosen public inputs and forged bit-decomposition hints vs. independent on-chain packing + Keccak",
         "Full insertion/deletion circuits (one- and two-block hash inputs) are solved for valid batches with the keccak of the canonical packing (must accept) and with hashes of single-field perturbations, other valid batches, alternative encodings, and - with the decomposition hint replaced - of the forged bytes v+k*r for every admissible k (incl. v=0), other values and non-boolean digits (must all reject); an insertion circuit of depth 33 must reject start indices >= 2^32 for every public input; the rejecting constraint is recorded. A table-free dishonest prover discovers every hint call of the full circuit at run time, forges each with generic perturbations and tries the public input the rejecting constraint asks for (must reject). Public wires checked to be exactly [1, InputHash]. Held on the executions produced.",
         "Trusts x/crypto Keccak, the packing written from the property statement, gnark's solver, the structure audit.",
         "DESIGN.md §3.1, §C03"),
 "C07": ("provmon", "exploration",
         "runtime monitor: real Groth16 setup/prove/verify with reference validity + hash oracle, re-randomised proofs, cross-system checks",
         "Real proving systems of both modes (incl. a same-shape pair and an independent second setup) prove valid batches; each proof and 60-200 re-randomised derivatives are verified for the own hash (+r, +2r accepted) and against neighbouring/perturbed/foreign/random public inputs, the other mode's system and the independent setup (rejected); every invalid batch class, wrong hashes and 15 wrong-dimension mutations must give error and nil proof; valid/invalid twins with the same input hash are proved concurrently. Held on the calls made.",
         "Trusts gnark's Groth16 and the monitor's reference specs; dimensions beyond those set up are not covered.",
         "DESIGN.md §C07"),
 "C08": ("provmon", "exploration",
         "runtime monitor: differential test of the hash helpers against independent packing + Keccak, circuit solve, CLI sweep of gen-test-params",
         "ComputeInputHashInsertion/Deletion on tens of thousands of parameter sets of every magnitude class (k leading zero bytes for all k) compared with the on-chain packing; a sequential stream, pre-filled hash fields and one struct refilled for consecutive batches expose state carried between calls; production-size batches (up to 4096); short-root valid batches are solved in the full circuit with the helper's hash; gen-test-params output for a (mode, depth, batch) sweep is parsed independently and checked for hash, validity and provability. Held on the sets produced.",
         "Trusts x/crypto Keccak and the packing written from the property statement; hash equality modulo r.",
         "DESIGN.md §C08"),
 "C10": ("provmon", "exploration",
         "runtime monitor: codec round trip of real, re-randomised and synthetic proofs against an independent EVM-order codec",
         "Thousands of valid proofs (re-randomised from real ones; the monitor counts those with short coordinates and requires >=50) plus synthetic tiny-coordinate proofs are marshalled, read by an independent reader (EVM order vs. reflection on the gnark struct), unmarshalled (points equal, still verifying) and decoded from independently written minimal/padded hex; synthetic proofs sweep every coordinate bit length 1..253 and the top of the base field; sequential stream first. Held on the proofs produced.",
         "Trusts gnark-crypto arithmetic, EIP-197 ordering as written in the property.",
         "DESIGN.md §C10"),
 "C11": ("provmon", "exploration",
         "runtime monitor: write/read both formats + CLI conversion, canonical digests and cross prove/verify against the original in-memory system",
         "Real insertion/deletion systems and hundreds of small independent systems are written compressed and raw, converted by the CLI (to a fresh path and in place), written repeatedly over one shared path, read back by both readers (the file reader also through symlinks, hard links and named pipes, the stream reader also through a pipe with short reads); header, digests of pk/vk/cs, byte counts and cross prove/verify between original and reloaded system are checked. Held on the systems produced.",
         "Digest = SHA-256 of gnark's own canonical serialisation of the in-memory parts.",
         "DESIGN.md §C11"),
 "C15": ("provmon", "fault_enumeration",
         "fault enumeration at run time: every cut offset of small files, boundaries and samples of real files, CLI on truncated files",
         "Every strict prefix (all byte offsets) of several small proving-system files in both formats, and boundary/PRNG offsets plus buffer-size multiples (512 B .. 16 MiB) of real 60-90 MB files, are fed to UnsafeReadFrom / ReadSystemFromFile under recover() and a watchdog: outcome must be an error. The complete file is loaded through the file reader first, then its prefixes. about 20 prefixes delivered slowly through named pipes (end-of-file 12 s / 35 s after the last byte) must be rejected like the fast ones; CLI commands on six truncated files must exit non-zero within their watchdog without crash marks in their output, and start must not stay up. Exhaustive per small file; sampled for real files.",
         "Assumes truncation = strict prefix; small files share the layout of real ones.",
         "DESIGN.md §C15"),
 "C01": ("circmon", "exploration",
         "runtime monitor: real compiled R1CS solved under honest and dishonest hint tables vs. reference Merkle spec; tiny-field exhaustive sub-runs",
         "Executes the real compiled constraint systems (gadget harness at many depths/batches and the full circuit) with gnark's solver on PRNG batches aimed at every class of the quantifier, under the honest hint table and dishonest ones (non-boolean/wrong index digits); every verdict is compared with an independent statement of the property, every accept is re-derived by an independent constraint evaluator, and over the 47-element field inputs and all prover-chosen hint outputs (of every registered hint function, discovered at run time) are enumerated. Held on the executions produced; exhaustive only at the tiny scope.",
         "Trusts iden3 Poseidon as reference hash, gnark's solver/compiler, and the structure audit's argument that prover freedom = secret inputs + NBits/InvZero outputs. Depths/batches/hint strategies not run are not covered.",
         "DESIGN.md §3.1, §C01"),
 "C02": ("circmon", "exploration",
         "runtime monitor: real compiled R1CS solved under honest and dishonest hint tables vs. reference Merkle spec; tiny-field exhaustive sub-runs",
         "As C01 for the deletion circuit: members, every padding flavour (garbage, genuine proofs of live leaves, extremes, all 2^B masks for B<=4), duplicates, already-empty leaves, over-range indices, stale/corrupt paths; dishonest tables forge non-boolean index digits, the skip digit and the is-zero inverse; all 47^3 hint outputs enumerated per input at depth 1 over F47. Held on the executions produced.",
         "Same trusted base as C01.",
         "DESIGN.md §3.1, §C02"),
 "C04": ("circmon", "exploration",
         "runtime monitor: gadget executed in gnark's test engine and as compiled R1CS, digest compared with x/crypto sha3",
         "Every byte length 0..409 (all residues mod 136 in 1-4 blocks; 0..817 thorough) plus production lengths, six content kinds, both domains: the reference digest must be accepted and a flipped bit / the other domain's digest rejected. Compiled R1CS at boundary lengths; a harness hashing several sub-slices of one buffer inside one circuit (engine and compiled). Dishonest prover: every hint call the compiled gadget makes is discovered at run time and answered with forged values, digest wires read through a probe (the pinned gadget makes none: recorded). Held on the messages produced.",
         "Trusts golang.org/x/crypto/sha3 and gnark's test engine; only byte-aligned messages.",
         "DESIGN.md §C04"),
 "C05": ("circmon", "exploration",
         "runtime monitor: gadget solved as compiled R1CS (and in the test engine) vs. iden3 Poseidon and published vectors",
         "Poseidon1/Poseidon2 harnesses solved on specials (0,1,2,r-1,r-2,2^k,2^k-1 for all k), all small pairs, sparse/dense and uniform elements, with the reference digest (accept) and reference+1 (reject); harnesses calling the gadgets repeatedly on shared bare inputs and on derived, re-used expressions (compiled and in the engine) expose aliasing and in-place updates; compile-time constants as gadget inputs; circuits defined concurrently; every hint call of the compiled gadgets discovered and forged (none on the pinned tree: recorded). Held on the inputs produced.",
         "Trusts iden3 go-iden3-crypto Poseidon, anchored to two published circomlib vectors at run time.",
         "DESIGN.md §C05"),
 "C06": ("circmon", "exploration",
         "runtime monitor: gadgets executed over many prime fields (engine) and as compiled R1CS incl. forged decompositions vs. integer comparison",
         "ReducedModRCheck on directly presented digits: exhaustive over all boolean patterns for small widths over 10 small primes, every bit position of the modulus flipped on 7 curve fields, non-boolean digits at every position; ToReducedBigEndian with honest and forged hints (all 2^8 patterns x 47 values over F47, v+k*p and non-boolean digits on curve fields); FromBinaryBigEndian on values incl. >= order. Held on the assignments produced; exhaustive sub-runs flagged in the evidence.",
         "Trusts big.Int arithmetic and gnark's engine/solver.",
         "DESIGN.md §C06"),
 "C16": ("provmon", "exploration",
         "runtime monitor: differential round trip against an independent JSON reader/writer",
         "PRNG parameter sets of every magnitude/shape are encoded by the repository, read back by an independent reader and by the repository's decoder; documents from an independent writer in decimal/0x/0X/padded hex must decode to the same values; one numeric position replaced by a non-number (incl. a sign after the 0x prefix), or an index by an out-of-range value, must make decoding fail with an error (a panic of the codec is a violation); a sequential stream checks that a document with an absent key does not silently take values (in particular not those of an earlier decode). Held on the documents produced.",
         "Trusts encoding/json and big.Int.SetString in the independent codec; spellings the property does not mention are not asserted.",
         "DESIGN.md §C16"),
 "C18": ("provmon", "exploration",
         "runtime monitor: reference-model oracle over PRNG update histories",
         "Every Update() of PRNG histories on the real poseidon_tree at every depth 1..32 is compared with an independent sparse reference tree and with from-scratch recomputation from the leaf map; returned paths are folded against previous and new roots; histories include repeated indices, identities moved to the sibling slot, re-used and small values. Held on the executions produced; not a proof over all histories.",
         "Trusts iden3 go-iden3-crypto Poseidon as the reference hash and the monitor's 40-line sparse tree (itself cross-checked by dense recomputation at depth <= 10).",
         "DESIGN.md §C18"),
}
PENDING_REASON = "monitor not built yet in this revision of /verif (planned, see DESIGN.md); not claimed until its check exists"

def main():
    props = [json.loads(l)["id"] for l in open(os.path.join(HERE, "properties.jsonl"))]
    checks, na = [], []
    for pid in props:
        if pid in CHECKS:
            mon, level, tech, text, note, ref = CHECKS[pid]
            checks.append({
                "property_id": pid,
                "quick_cmd": f"./check {pid} quick",
                "thorough_cmd": f"./check {pid} thorough",
                "evidence_file": f"/verif/evidence/{pid}.json",
                "replay_cmd_template": f"./check {pid} --replay {{path}}",
                "engine": mon,
                "level_claimed": {"category": level, "text": text, "design_ref": ref},
                "level_note": note,
                "technique": tech,
            })
        else:
            na.append({"property_id": pid, "reason": PENDING_REASON})
    hooks_commits = [l.strip() for l in open(os.path.join(HERE, "hooks_commits.txt")) if l.strip()]
    m = {
        "version": 1,
        "setup_cmd": "./setup.sh",
        "hooks": {
            "guard": "verif (Go build tag)",
            "enable": "go build -tags verif (the monitors' module replaces worldcoin/gnark-mbu with /repo, so every check rebuilds /repo's working tree with the tag on)",
            "baseline_off_cmd": "cd /repo && GOFLAGS=-mod=mod GOPROXY=off GOSUMDB=off GOTOOLCHAIN=local go test -mod=mod -json -vet=off -count=1 -timeout 25m ./...",
            "source_commits": hooks_commits,
            "add_only": True,
        },
        "engines": [
            {"name": "circmon", "path": "mon/cmd/circmon", "serves_properties": ["C01","C02","C03","C04","C05","C06"], "kind_free_text": "runtime monitor of compiled R1CS / gnark test engine executions under honest and dishonest hint tables, reference-spec oracle"},
            {"name": "provmon", "path": "mon/cmd/provmon", "serves_properties": ["C07","C08","C10","C11","C15","C16","C18"], "kind_free_text": "in-process runtime monitor of the real prover library (Groth16 setup/prove/verify, codecs, files, tree)"},
            {"name": "svcmon", "path": "mon/cmd/svcmon", "serves_properties": ["C09","C13","C14","C20"], "kind_free_text": "real server under hostile/concurrent clients: per-request oracle, race detector, event-log hooks, porcupine history checking"},
            {"name": "climon", "path": "mon/cmd/climon", "serves_properties": ["C12","C17","C19"], "kind_free_text": "fresh gnark-mbu processes: digests, stdout/exit-status oracle"},
        ],
        "checks": checks,
        "not_applicable": na,
        "notes": "All checks are runtime monitors (see DESIGN.md). ./check <ID> <tier> rebuilds from /repo on every call; VERIF_SEED selects the PRNG-determined case list. known_findings.json lists fixed/known defects.",
    }
    json.dump(m, open(os.path.join(HERE, "MANIFEST.json"), "w"), indent=1)
    try:
        import jsonschema
        jsonschema.validate(m, json.load(open("/root/.vp/MANIFEST.schema.json")))
        print("MANIFEST.json valid;", len(checks), "checks,", len(na), "not claimed")
    except ImportError:
        print("jsonschema not available; written without validation")

if __name__ == "__main__":
    main()
