#!/usr/bin/env python3
"""Regenerates /verif/MANIFEST.json from the table below and validates it."""
import json, os, sys
HERE = os.path.dirname(os.path.dirname(os.path.abspath(__file__)))

# id -> (monitor, level, technique, level text, level note, design ref)
CHECKS = {
 "C18": ("provmon", "exploration",
         "runtime monitor: reference-model oracle over PRNG update histories",
         "Every Update() of PRNG histories on the real poseidon_tree at every depth 1..32 is compared with an independent sparse reference tree and with from-scratch recomputation from the leaf map; returned paths are folded against previous and new roots. Held on the executions produced; not a proof over all histories.",
         "Trusts iden3 go-iden3-crypto Poseidon as the reference hash and the monitor's 40-line sparse tree (itself cross-checked by dense recomputation at depth <= 10).",
         "DESIGN.md §C18"),
}
PENDING_REASON = "monitor not built yet in this revision of /verif (planned, see DESIGN.md); not claimed until its check exists"

def main():
    props = [json.loads(l)["id"] for l in open(os.path.join(HERE, "properties.jsonl"))]
    checks, na = [], []
    for pid in props:
        if pid in CHECKS:
            mon, level, tech, text, note, ref = CHECKS[pid]
            checks.append({
                "property_id": pid,
                "quick_cmd": f"./check {pid} quick",
                "thorough_cmd": f"./check {pid} thorough",
                "evidence_file": f"/verif/evidence/{pid}.json",
                "replay_cmd_template": f"./check {pid} --replay {{path}}",
                "engine": mon,
                "level_claimed": {"category": level, "text": text, "design_ref": ref},
                "level_note": note,
                "technique": tech,
            })
        else:
            na.append({"property_id": pid, "reason": PENDING_REASON})
    hooks_commits = [l.strip() for l in open(os.path.join(HERE, "hooks_commits.txt")) if l.strip()]
    m = {
        "version": 1,
        "setup_cmd": "./setup.sh",
        "hooks": {
            "guard": "verif (Go build tag)",
            "enable": "go build -tags verif (the monitors' module replaces worldcoin/gnark-mbu with /repo, so every check rebuilds /repo's working tree with the tag on)",
            "baseline_off_cmd": "cd /repo && GOFLAGS=-mod=mod GOPROXY=off GOSUMDB=off GOTOOLCHAIN=local go test -mod=mod -json -vet=off -count=1 -timeout 25m ./...",
            "source_commits": hooks_commits,
            "add_only": True,
        },
        "engines": [
            {"name": "circmon", "path": "mon/cmd/circmon", "serves_properties": ["C01","C02","C03","C04","C05","C06"], "kind_free_text": "runtime monitor of compiled R1CS / gnark test engine executions under honest and dishonest hint tables, reference-spec oracle"},
            {"name": "provmon", "path": "mon/cmd/provmon", "serves_properties": ["C07","C08","C10","C11","C15","C16","C18"], "kind_free_text": "in-process runtime monitor of the real prover library (Groth16 setup/prove/verify, codecs, files, tree)"},
            {"name": "svcmon", "path": "mon/cmd/svcmon", "serves_properties": ["C09","C13","C14","C20"], "kind_free_text": "real server under hostile/concurrent clients: per-request oracle, race detector, event-log hooks, porcupine history checking"},
            {"name": "climon", "path": "mon/cmd/climon", "serves_properties": ["C12","C17","C19"], "kind_free_text": "fresh gnark-mbu processes: digests, stdout/exit-status oracle"},
        ],
        "checks": checks,
        "not_applicable": na,
        "notes": "All checks are runtime monitors (see DESIGN.md). ./check <ID> <tier> rebuilds from /repo on every call; VERIF_SEED selects the PRNG-determined case list. known_findings.json lists fixed/known defects.",
    }
    json.dump(m, open(os.path.join(HERE, "MANIFEST.json"), "w"), indent=1)
    try:
        import jsonschema
        jsonschema.validate(m, json.load(open("/root/.vp/MANIFEST.schema.json")))
        print("MANIFEST.json valid;", len(checks), "checks,", len(na), "not claimed")
    except ImportError:
        print("jsonschema not available; written without validation")

if __name__ == "__main__":
    main()
