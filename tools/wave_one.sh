#!/usr/bin/env bash
# tools/wave_one.sh <seed> <ID[,ID2...]>  — confirm a sub-agent's seeded change in its scratch worktree, then run the
# listed quick checks against that worktree with the change applied (tools/mutant_wt.sh). Leaves the worktree clean.
set -u
S="$1"; IDS="${2//,/ }"
/verif/tools/confirm_seed.sh "$S" > /tmp/seeded_out/$S/confirm_stdout.txt 2>&1
cat /tmp/seeded_out/$S/CONFIRM.txt
for ID in $IDS; do /verif/tools/mutant_wt.sh "$S" "$ID"; done
( cd /tmp/wt/$S && git checkout -q -- . && git clean -fdq )
