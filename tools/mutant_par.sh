#!/usr/bin/env bash
# tools/mutant_par.sh <seed> <ID[,ID2]> — run the quick checks against a second scratch worktree /tmp/wt/<seed>m
# carrying the seeded change (so that confirm_seed.sh can use /tmp/wt/<seed> at the same time); removes it afterwards.
set -u
S="$1"; IDS="${2//,/ }"
git -C /repo worktree add -q --detach /tmp/wt/${S}m HEAD || exit 3
( cd /tmp/wt/${S}m && git apply /tmp/seeded_out/$S/patch.diff ) || { echo "patch does not apply"; git -C /repo worktree remove --force /tmp/wt/${S}m; exit 3; }
for ID in $IDS; do
  VC=/tmp/vc/${S}_${ID}_$$; mkdir -p /tmp/vc /tmp/mutlogs
  rsync -a --exclude .git --exclude seeded --exclude replays /verif/ "$VC/"
  LOG=/tmp/mutlogs/${S}_${ID}_quick.log
  ( cd "$VC" && VERIF_REPO=/tmp/wt/${S}m ./check "$ID" quick ) >"$LOG" 2>&1; RC=$?
  rm -rf "$VC"
  echo "mutant $S vs $ID quick: exit=$RC violations=$(grep -c '^VIOLATION' "$LOG") log=$LOG"
  grep -m2 'violation key' "$LOG" | cut -c1-300
done
git -C /repo worktree remove --force /tmp/wt/${S}m
