#!/usr/bin/env bash
# tools/mutant_wt.sh <seed> <ID> [tier]  — run a check against the scratch worktree /tmp/wt/<seed> with the seeded
# change applied there (VERIF_REPO), from a throw-away copy of /verif so that committed evidence is never overwritten
# and several seeds can be examined in parallel. /repo itself is not touched. Log: /tmp/mutlogs/<seed>_<ID>_<tier>.log
set -u
S="$1"; ID="$2"; TIER="${3:-quick}"
WT=/tmp/wt/$S; PATCH="${PATCH:-/tmp/seeded_out/$S/patch.diff}"
[ -d "$WT" ] || { echo "no worktree $WT" >&2; exit 3; }
mkdir -p /tmp/mutlogs /tmp/vc
VC=/tmp/vc/${S}_${ID}_$$
rsync -a --exclude .git --exclude seeded --exclude replays /verif/ "$VC/"
( cd "$WT" && flock "$WT/.git" true 2>/dev/null; if [ -z "$(git status --porcelain)" ]; then git apply "$PATCH" || exit 3; fi ) || { echo "patch does not apply" >&2; rm -rf "$VC"; exit 3; }
LOG=/tmp/mutlogs/${S}_${ID}_$TIER.log
( cd "$VC" && VERIF_REPO="$WT" ./check "$ID" "$TIER" ) >"$LOG" 2>&1; RC=$?
rm -rf "$VC"
echo "mutant $S vs $ID $TIER: exit=$RC violations=$(grep -c '^VIOLATION' "$LOG") log=$LOG"
grep -m3 'violation key' "$LOG"
exit 0
