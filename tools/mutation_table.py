#!/usr/bin/env python3
"""Summarises /tmp/mutlogs/*_quick.log into a markdown table (mutant x check -> caught?, first violation)."""
import glob, os, re
rows=[]
for f in sorted(glob.glob('/tmp/mutlogs/*_*_*.log')):
    b=os.path.basename(f)[:-4]
    m=re.match(r'(.+)_(C\d\d)_(quick|thorough)$', b)
    if not m: continue
    mut, chk, tier = m.groups()
    t=open(f, errors='replace').read()
    n=len(re.findall(r'^VIOLATION', t, re.M))
    built = 'BUILD-FAILED' not in t
    first=''
    for l in t.splitlines():
        if 'violation key=' in l:
            first=l.split('violation key=',1)[1].strip()
            first=re.sub(r'\s+',' ',first)[:150]
            break
    rows.append((mut, chk, tier, n, built, first))
print('| change | check | VIOLATION lines | first witness |')
print('|---|---|---|---|')
for mut, chk, tier, n, built, first in rows:
    status = str(n) if built else 'monitor build failed (invalid mutant)'
    print(f'| {mut} | {chk} {tier} | {status} | {first.replace("|","/")} |')
