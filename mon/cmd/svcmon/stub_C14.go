package main
import ("verifmon/internal/cli"; "verifmon/internal/evid")
func runC14(o *cli.Opts, run *evid.Run) { panic("todo") }
