//go:build !verif

package main

func configureHooks(eventlog, delays string, seed int64) {}

const hooksCompiled = false
