package main
func c14Worker(args []string) {}
