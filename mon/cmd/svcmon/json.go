package main

import "encoding/json"

func jsonMarshal(v any) ([]byte, error) { return json.Marshal(v) }
