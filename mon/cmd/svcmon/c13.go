package main

import (
	"bufio"
	"bytes"
	"crypto/sha256"
	"encoding/hex"
	"fmt"
	"math/big"
	"os"
	"path/filepath"
	"sort"
	"strings"
	"sync"
	"time"

	"verifmon/internal/cli"
	"verifmon/internal/evid"
	"verifmon/internal/gen"
	"verifmon/internal/proc"
	"verifmon/internal/ref"
)

type delayProfile struct {
	name   string
	delays string
}

var c13Profiles = []delayProfile{
	{"none", ""},
	{"decode-prove", "prove.afterDecode=25:25"},
	{"read+write", "prove.afterRead=10:20,prove.afterProve=10:20"},
	// barriers: handlers are released in pairs right before a proof is serialised and right before it is written,
	// so that the code between the prover and the socket runs in two requests at the same moment
	{"barrier", "prove.afterProve=@2:2000,prove.beforeWrite=@2:1000"},
}

// countRaces counts and deduplicates data race reports in the race detector's log files.
func countRaces(prefix string) (int, []string) {
	files, _ := filepath.Glob(prefix + ".*")
	total := 0
	seen := map[string]bool{}
	for _, f := range files {
		b, _ := os.ReadFile(f)
		blocks := strings.Split(string(b), "WARNING: DATA RACE")
		for _, blk := range blocks[1:] {
			total++
			// signature: the pair of first non-runtime frames
			var frames []string
			sc := bufio.NewScanner(strings.NewReader(blk))
			for sc.Scan() {
				l := strings.TrimSpace(sc.Text())
				if strings.HasSuffix(l, ")") && strings.Contains(l, "(") && !strings.HasPrefix(l, "runtime.") && !strings.Contains(l, ".go:") {
					frames = append(frames, l[:strings.Index(l, "(")])
					if len(frames) == 2 {
						break
					}
				}
			}
			seen[strings.Join(frames, " <-> ")] = true
		}
	}
	var sigs []string
	for s := range seen {
		sigs = append(sigs, s)
	}
	sort.Strings(sigs)
	return total, sigs
}

type serverEvent struct {
	t    int64
	gid  string
	name string
}

func readEvents(path string) []serverEvent {
	b, _ := os.ReadFile(path)
	var out []serverEvent
	for _, l := range bytes.Split(b, []byte("\n")) {
		f := strings.Fields(string(l))
		if len(f) != 3 {
			continue
		}
		var t int64
		fmt.Sscan(f[0], &t)
		out = append(out, serverEvent{t, f[1], f[2]})
	}
	return out
}

func runC13(o *cli.Opts, run *evid.Run) {
	run.Rule("one case = one request sent as part of a round of N in {2,3,4,8,16} clients released together (PRNG start offsets 0-30 ms) against a `gnark-mbu start` child built with -race -tags verif, under hook-delay profiles that widen the read->decode->prove->write windows; each client sends its own request (valid with a distinct hash incl. equal-length bodies and bodies arriving in two TCP segments, unsatisfiable, wrong shape, malformed, non-POST); " +
		"oracle = per-response specification (200 => proof verifies for THIS request's hash; deterministic error bodies equal what the same request gets alone); race detector log must be empty; coverage = overlap seen by clients and by the server-side event log, distinct interleaving signatures; non-trivial = distinct request bytes")
	run.Assume("schedules = those produced by the OS under load plus the hook-delay profiles", "solver error messages are not compared across runs")
	bin, err := proc.BuildBinary(o.Out, o.Scratch, o.Repo, true)
	if err != nil {
		run.Violate("C13/build", err.Error(), nil)
		return
	}
	run.Stage("race-build")
	var wg sync.WaitGroup
	for _, mode := range []string{"insertion", "deletion"} {
		mode := mode
		wg.Add(1)
		go func() {
			defer wg.Done()
			c13Mode(o, run, bin, mode)
		}()
	}
	wg.Wait()
	run.Require("rounds with overlap >= 2", run.GetInt("rounds_with_overlap"), 6)
	run.Require("max client overlap", run.GetInt("max_client_overlap"), 4)
	run.Require("valid requests proved concurrently", run.ClassTally("insertion/valid").Accepted+run.ClassTally("deletion/valid").Accepted, 8)
	run.Require("server-side hook events observed", run.GetInt("server_events"), 50)
	run.Require("distinct interleaving signatures", run.GetInt("distinct_interleavings"), 4)
	run.Require("same-hash twin pairs sent together", run.GetInt("twin_pairs"), 2)
}

func c13Mode(o *cli.Opts, run *evid.Run, bin, mode string) {
	key := "C13/" + mode
	ks, err := makeKeys(o, mode, 3, 2)
	if err != nil {
		run.Violate(key+"/setup", "setup failed: "+err.Error(), nil)
		return
	}
	racePrefix := filepath.Join(o.Scratch, "race-"+mode)
	sizes := []int{2, 3, 4, 8, 16, 4}
	roundsPerProfile := o.Pick(2, 20)
	sigs := map[string]bool{}
	for pi, prof := range c13Profiles {
		env := []string{"GORACE=halt_on_error=0 log_path=" + racePrefix, "VERIF_DELAYS=" + prof.delays, fmt.Sprintf("VERIF_SEED=%d", o.Seed)}
		extra := []string{}
		if o.Thorough() && pi == 2 {
			extra = append(extra, "--json-logging")
		}
		srv, err := startServer(bin, ks, o, fmt.Sprintf("c13-%s-%d", mode, pi), env, extra...)
		if err != nil {
			run.Inconclusive(key + ": race-built server did not start: " + err.Error())
			continue
		}
		pendingUpload(o, run, ks, srv, fmt.Sprintf("%s/%s/upload-pending", key, prof.name))
		if pi == 0 || o.Thorough() {
			abandonedClients(o, run, ks, srv, fmt.Sprintf("%s/%s/abandoned-clients", key, prof.name), 1)
		}
		for rd := 0; rd < roundsPerProfile; rd++ {
			n := sizes[(pi*roundsPerProfile+rd)%len(sizes)]
			if prof.name == "barrier" {
				n = []int{4, 8}[rd%2]
			}
			rkey := fmt.Sprintf("%s/%s/round%d", key, prof.name, rd)
			if !run.Wants(rkey) {
				continue
			}
			if liveness.hung() && run.Violations() > 0 {
				continue // the server stopped answering: the violations already recorded are the verdict
			}
			c13Round(o, run, ks, srv, mode, rkey, n, sigs)
		}
		if marks := srv.CrashMarks(); len(marks) > 0 {
			run.Violate(key+"/"+prof.name+"/crash-marks", fmt.Sprintf("server output carries crash marks %v", marks), map[string]any{"stderr_tail": tailStr(srv.Stderr(), 3000)})
		}
		// graceful stop so that the race detector flushes its reports
		srv.Signal(2)
		if _, ok := srv.Wait(3 * time.Minute); !ok {
			srv.Kill()
		}
		run.Stage(mode + "/" + prof.name)
	}
	// the same rounds once more on the plain (non -race) binary: the race runtime perturbs sync.Pool and
	// scheduling, so behavioural cross-talk may only show without it
	if pbin, err := proc.BuildBinary(o.Out, o.Scratch, o.Repo, false); err == nil {
		env := []string{"VERIF_DELAYS=prove.afterRead=3:6,prove.afterDecode=20:20", fmt.Sprintf("VERIF_SEED=%d", o.Seed)}
		if srv, err := startServer(pbin, ks, o, "c13-"+mode+"-plain", env); err == nil {
			pendingUpload(o, run, ks, srv, key+"/plain-binary/upload-pending")
			abandonedClients(o, run, ks, srv, key+"/plain-binary/abandoned-clients", 2)
			for rd := 0; rd < o.Pick(3, 12); rd++ {
				rkey := fmt.Sprintf("%s/plain-binary/round%d", key, rd)
				if run.Wants(rkey) && !(liveness.hung() && run.Violations() > 0) {
					c13Round(o, run, ks, srv, mode, rkey, []int{8, 16, 12}[rd%3], sigs)
				}
			}
			if marks := srv.CrashMarks(); len(marks) > 0 {
				run.Violate(key+"/plain-binary/crash-marks", fmt.Sprintf("server output carries crash marks %v", marks), map[string]any{"stderr_tail": tailStr(srv.Stderr(), 3000)})
			}
			srv.Signal(2)
			if _, ok := srv.Wait(3 * time.Minute); !ok {
				srv.Kill()
			}
			run.Stage(mode + "/plain-binary")
		}
	}
	run.Add("distinct_interleavings", len(sigs))
	total, dedup := countRaces(racePrefix)
	run.Add("race_reports", total)
	if total > 0 {
		files, _ := filepath.Glob(racePrefix + ".*")
		excerpt := ""
		if len(files) > 0 {
			b, _ := os.ReadFile(files[0])
			excerpt = truncate(string(b), 3000)
		}
		run.Violate(key+"/data-race", fmt.Sprintf("the race detector reported %d data race(s) (%d distinct): %s", total, len(dedup), strings.Join(dedup, "; ")), map[string]any{"report_excerpt": excerpt})
	}
}

func c13Round(o *cli.Opts, run *evid.Run, ks *keyset, srv *proc.Server, mode, rkey string, n int, sigs map[string]bool) {
	r := gen.RNG(o.Seed, rkey)
	reqs := make([]*request, n)
	offsets := make([]time.Duration, n)
	for i := range reqs {
		switch k := (i + r.Intn(3)) % 6; k {
		case 0, 1:
			rq := validRequest(r, ks)
			switch r.Intn(3) {
			case 0: // equal-length bodies: zero-padded numbers
				doc, h := validDoc(r, ks)
				for _, f := range []string{"inputHash", "preRoot", "postRoot"} {
					doc[f] = padHex(doc[f].(string))
				}
				rq = newReq("valid", "POST", mustJSONPadded(doc), expectValid, h)
			case 1:
				rq.raw = "slow-body"
				rq.pause = 5 + r.Intn(40)
			}
			reqs[i] = rq
		case 2:
			reqs[i] = invalidBatchRequest(r, ks)
		case 3:
			reqs[i] = shapeRequest(r, ks)
		case 4:
			rq := malformedRequest(r, ks)
			if rq.raw != "" || rq.expect == expectEither400 || len(rq.body) > 100000 {
				rq = newReq("malformed/literal", "POST", []byte(fmt.Sprintf(`{"inputHash":"not-a-number-%d"}`, r.Intn(1e9))), expectMalformed, nil)
			}
			reqs[i] = rq
		default:
			reqs[i] = methodRequest(r, ks)
		}
		offsets[i] = time.Duration(r.Intn(30)) * time.Millisecond
	}
	// twins: a valid request and an invalid one with the SAME public fields and input hash (the
	// Merkle proofs are not hashed), released together: each must still get its own answer
	if n >= 2 && r.Intn(2) == 0 {
		doc, h := validDoc(r, ks)
		reqs[0] = newReq("valid", "POST", ref.MustJSON(doc), expectValid, h)
		tw := map[string]any{}
		for k, v := range doc {
			tw[k] = v
		}
		proofs := append([]any{}, doc["merkleProofs"].([]any)...)
		slot := r.Intn(len(proofs))
		inner := append([]any{}, proofs[slot].([]any)...)
		lvl := r.Intn(len(inner))
		v, _ := new(big.Int).SetString(inner[lvl].(string), 0)
		inner[lvl] = ref.Num(new(big.Int).Add(v, big.NewInt(1)), "hex")
		proofs[slot] = inner
		tw["merkleProofs"] = proofs
		// in deletion mode a padding slot ignores its path: make sure the twin really is invalid
		reqs[1] = newReq("invalid-batch/twin-same-hash", "POST", ref.MustJSON(tw), expectProving, nil)
		if ks.mode == "deletion" && !twinInvalid(ks, tw) {
			reqs[1] = newReq("valid", "POST", ref.MustJSON(tw), expectValid, h)
		}
		offsets[1] = offsets[0]
		run.Add("twin_pairs", 1)
	}
	evBefore := len(readEvents(srv.EventLog))
	resps := make([]response, n)
	var wg sync.WaitGroup
	start := make(chan struct{})
	for i := range reqs {
		i := i
		wg.Add(1)
		go func() {
			defer wg.Done()
			<-start
			time.Sleep(offsets[i])
			resps[i] = send(srv.ProverAddr, reqs[i], 15*time.Minute)
		}()
	}
	close(start)
	wg.Wait()
	// per-response oracle
	for i, rq := range reqs {
		rs := resps[i]
		k := fmt.Sprintf("%s/client%d/%s", rkey, i, rq.class)
		problem := judgeResponse(ks, rq, rs)
		if problem != "" {
			var others []string
			for j, o2 := range reqs {
				if j != i {
					others = append(others, o2.class)
				}
			}
			run.Violate(k, fmt.Sprintf("%s request (%s) sent concurrently with %d others: %s", mode, rq.class, n-1, problem),
				map[string]any{"request_body": truncate(string(rq.body), 3000), "raw": rq.raw, "concurrent_with": others, "response_status": rs.status, "response_body": truncate(string(rs.body), 500)})
		}
		cls := rq.class
		if j := indexByte(cls, '/'); j > 0 {
			cls = cls[:j]
		}
		run.Case(mode+"/"+cls, true, rq.method+"\x00"+string(rq.body), problem == "" && rs.status == 200,
			map[string]any{"round_size": n, "class": rq.class, "raw": rq.raw, "status": rs.status, "call_ns": rs.call, "return_ns": rs.ret})
	}
	// client-side overlap
	type ev struct {
		t int64
		d int
	}
	var evs []ev
	for _, rs := range resps {
		evs = append(evs, ev{rs.call, 1}, ev{rs.ret, -1})
	}
	sort.Slice(evs, func(i, j int) bool { return evs[i].t < evs[j].t || (evs[i].t == evs[j].t && evs[i].d < evs[j].d) })
	cur, mx := 0, 0
	for _, e := range evs {
		cur += e.d
		if cur > mx {
			mx = cur
		}
	}
	run.Max("max_client_overlap", mx)
	if mx >= 2 {
		run.Add("rounds_with_overlap", 1)
	}
	// server-side interleaving signature of this round
	events := readEvents(srv.EventLog)
	if len(events) > evBefore {
		round := events[evBefore:]
		run.Add("server_events", len(round))
		ids := map[string]int{}
		var sb strings.Builder
		active, maxActive := map[string]bool{}, 0
		for _, e := range round {
			if _, ok := ids[e.gid]; !ok {
				ids[e.gid] = len(ids)
			}
			fmt.Fprintf(&sb, "%d:%s ", ids[e.gid], e.name)
			if e.name == "prove.enter" {
				active[e.gid] = true
			}
			if len(active) > maxActive {
				maxActive = len(active)
			}
			if e.name == "prove.afterProve" || e.name == "prove.beforeWrite" {
				// the handler is about to finish (error paths end at afterRead/afterDecode and are not tracked precisely)
				if e.name == "prove.beforeWrite" {
					delete(active, e.gid)
				}
			}
		}
		h := sha256.Sum256([]byte(sb.String()))
		sigs[hex.EncodeToString(h[:8])] = true
		run.Max("max_server_handlers_entered_together", maxActive)
	}
	// deterministic error bodies must equal what the same request gets alone
	for i, rq := range reqs {
		if rq.raw != "" || resps[i].err != nil {
			continue
		}
		if strings.HasPrefix(rq.class, "malformed/") || strings.HasPrefix(rq.class, "wrong-shape/") {
			alone := send(srv.ProverAddr, rq, 5*time.Minute)
			if alone.status != resps[i].status || !bytes.Equal(alone.body, resps[i].body) {
				run.Violate(fmt.Sprintf("%s/client%d/%s/alone", rkey, i, rq.class), "the response to this request differs from the response the same request gets when sent alone (it was influenced by a concurrent request)",
					map[string]any{"concurrent_response": truncate(string(resps[i].body), 400), "alone_response": truncate(string(alone.body), 400), "request_body": truncate(string(rq.body), 2000)})
			}
			run.Add("alone_comparisons", 1)
		}
	}
}

// twinInvalid decides with the reference specification whether a deletion document is an invalid batch.
func twinInvalid(ks *keyset, doc map[string]any) bool {
	p, err := ref.ReadDel(ref.MustJSON(doc))
	if err != nil {
		return true
	}
	idx := make([]*big.Int, len(p.Indices))
	for i, v := range p.Indices {
		idx[i] = new(big.Int).SetUint64(uint64(v))
	}
	return !ref.ValidDeletion(ref.H2, ref.R, ks.d, idx, p.Pre, p.Post, p.Ids, p.Proofs)
}

func padHex(s string) string {
	if strings.HasPrefix(s, "0x") {
		return "0x" + strings.Repeat("0", 64-len(s[2:])) + s[2:]
	}
	return s
}

// mustJSONPadded renders a document with every numeric string zero-padded to 64 digits.
func mustJSONPadded(doc map[string]any) []byte {
	var pad func(v any) any
	pad = func(v any) any {
		switch x := v.(type) {
		case string:
			return padHex(x)
		case []any:
			out := make([]any, len(x))
			for i := range x {
				out[i] = pad(x[i])
			}
			return out
		}
		return v
	}
	out := map[string]any{}
	for k, v := range doc {
		out[k] = pad(v)
	}
	b, _ := jsonMarshal(out)
	return b
}
