package main

import (
	"bufio"
	"bytes"
	"encoding/json"
	"errors"
	"fmt"
	"io"
	"math/big"
	"math/rand"
	"net"
	"net/http"
	"os"
	"path/filepath"
	"sort"
	"strings"
	"sync"
	"sync/atomic"
	"time"

	"worldcoin/gnark-mbu/prover"

	"verifmon/internal/cases"
	"verifmon/internal/cli"
	"verifmon/internal/evid"
	"verifmon/internal/gen"
	"verifmon/internal/proc"
	"verifmon/internal/ref"
	"verifmon/internal/sysutil"
)

// ---- proving system on disk ---------------------------------------------------

type keyset struct {
	mode string
	d, b int
	ps   *prover.ProvingSystem
	path string
}

// makeKeys runs the repository's setup in-process and writes a raw keys file;
// the verifying key stays in the monitor's memory.
func makeKeys(o *cli.Opts, mode string, d, b int) (*keyset, error) {
	ps, err := sysutil.Setup(mode, d, b)
	if err != nil {
		return nil, err
	}
	path := filepath.Join(o.Scratch, fmt.Sprintf("keys-%s-%d-%d.ps", mode, d, b))
	f, err := os.Create(path)
	if err != nil {
		return nil, err
	}
	defer f.Close()
	if _, err := ps.WriteRawTo(f); err != nil {
		return nil, err
	}
	return &keyset{mode, d, b, ps, path}, nil
}

// ---- expectations -------------------------------------------------------------

const (
	expect405       = "405"
	expectMalformed = "400 malformed_body"
	expectProving   = "400 proving_error"
	expectValid     = "200 + verifying proof"
	expectEither400 = "400 (either code)"
	expectLenient   = "400 proving_error or 200 + verifying proof"
)

type request struct {
	class  string
	method string
	body   []byte
	raw    string        // "", "short-body" (Content-Length larger than the body, then half-close), "bad-chunk", "slow-body"
	pause  int           // slow-body: milliseconds between the two body segments
	gate   chan struct{} // slow-body: if set, the second segment is sent when the gate is closed (instead of after pause)
	half   chan struct{} // slow-body with gate: closed by the sender once the first segment is on the wire
	expect string
	hash   *big.Int // for expectValid / expectLenient
	id     int
}

type response struct {
	status   int
	body     []byte
	err      error
	call     int64 // monotonic ns at the client boundary
	ret      int64
	headOnly bool
}

// liveness keeps the client-side watchdogs proportionate. A request that gets NO answer within its watchdog is
// already a violation (judgeResponse); once three requests of this process have timed out the server is judged hung
// and every later watchdog shrinks to max(20 s, 10 x median latency) so that a hung server costs minutes, not hours.
// Nothing is decided here: the verdicts stay with the callers, and nothing changes before the third timeout.
var liveness = &livenessTracker{}

type livenessTracker struct {
	mu       sync.Mutex
	lat      []time.Duration
	timeouts int
}

func (l *livenessTracker) median() time.Duration {
	if len(l.lat) == 0 {
		return 0
	}
	s := append([]time.Duration{}, l.lat...)
	sort.Slice(s, func(i, j int) bool { return s[i] < s[j] })
	return s[len(s)/2]
}

func (l *livenessTracker) limit(w time.Duration) time.Duration {
	l.mu.Lock()
	defer l.mu.Unlock()
	if l.timeouts < 3 {
		return w
	}
	short := 20 * time.Second
	if m := 10 * l.median(); m > short {
		short = m
	}
	if short < w {
		return short
	}
	return w
}

func (l *livenessTracker) observe(rs response) {
	l.mu.Lock()
	defer l.mu.Unlock()
	if rs.err != nil {
		var ne net.Error
		if errors.As(rs.err, &ne) && ne.Timeout() {
			l.timeouts++
		}
		return
	}
	if len(l.lat) < 4096 {
		l.lat = append(l.lat, time.Duration(rs.ret-rs.call))
	}
}

func (l *livenessTracker) hung() bool {
	l.mu.Lock()
	defer l.mu.Unlock()
	return l.timeouts >= 3
}

var clockBase = time.Now()

func now() int64 { return int64(time.Since(clockBase)) }

var httpClient = &http.Client{Timeout: 0, Transport: &http.Transport{MaxIdleConnsPerHost: 64, DisableCompression: true}}

// send performs the request at the client boundary. The watchdog is generous
// (hangs are decided by the caller).
func send(addr string, rq *request, watchdog time.Duration) (rs response) {
	watchdog = liveness.limit(watchdog)
	rs.call = now()
	defer func() {
		rs.ret = now()
		liveness.observe(rs)
	}()
	if rq.raw != "" {
		rs.status, rs.body, rs.err = sendRaw(addr, rq, watchdog)
		return rs
	}
	req, err := http.NewRequest(rq.method, "http://"+addr+"/prove", bytes.NewReader(rq.body))
	if err != nil {
		rs.err = err
		return rs
	}
	req.Header.Set("Content-Type", "application/json")
	c := *httpClient
	c.Timeout = watchdog
	resp, err := c.Do(req)
	if err != nil {
		rs.err = err
		return rs
	}
	defer resp.Body.Close()
	rs.status = resp.StatusCode
	rs.body, rs.err = io.ReadAll(resp.Body)
	return rs
}

// sendRaw speaks HTTP/1.1 by hand to produce body-read failures on the server.
func sendRaw(addr string, rq *request, watchdog time.Duration) (int, []byte, error) {
	conn, err := net.DialTimeout("tcp", addr, 10*time.Second)
	if err != nil {
		return 0, nil, err
	}
	defer conn.Close()
	conn.SetDeadline(time.Now().Add(watchdog))
	var head string
	switch rq.raw {
	case "short-body":
		head = fmt.Sprintf("POST /prove HTTP/1.1\r\nHost: %s\r\nContent-Type: application/json\r\nContent-Length: %d\r\nConnection: close\r\n\r\n", addr, len(rq.body)+17)
		if _, err := conn.Write(append([]byte(head), rq.body...)); err != nil {
			return 0, nil, err
		}
	case "slow-body": // a correct request whose body arrives in two segments
		head = fmt.Sprintf("POST /prove HTTP/1.1\r\nHost: %s\r\nContent-Type: application/json\r\nContent-Length: %d\r\nConnection: close\r\n\r\n", addr, len(rq.body))
		cut := len(rq.body) / 2
		if _, err := conn.Write(append([]byte(head), rq.body[:cut]...)); err != nil {
			return 0, nil, err
		}
		if rq.gate != nil {
			close(rq.half)
			select {
			case <-rq.gate:
			case <-time.After(watchdog):
			}
		} else {
			time.Sleep(time.Duration(rq.pause) * time.Millisecond)
		}
		if _, err := conn.Write(rq.body[cut:]); err != nil {
			return 0, nil, err
		}
	case "chunked": // a correct chunked upload (no Content-Length), body split into a few chunks
		head = fmt.Sprintf("POST /prove HTTP/1.1\r\nHost: %s\r\nContent-Type: application/json\r\nTransfer-Encoding: chunked\r\nConnection: close\r\n\r\n", addr)
		var sb bytes.Buffer
		sb.WriteString(head)
		for off := 0; off < len(rq.body); {
			n := 1 + (off*7+13)%700
			if off+n > len(rq.body) {
				n = len(rq.body) - off
			}
			fmt.Fprintf(&sb, "%x\r\n", n)
			sb.Write(rq.body[off : off+n])
			sb.WriteString("\r\n")
			off += n
		}
		sb.WriteString("0\r\n\r\n")
		if _, err := conn.Write(sb.Bytes()); err != nil {
			return 0, nil, err
		}
	case "bad-chunk":
		head = fmt.Sprintf("POST /prove HTTP/1.1\r\nHost: %s\r\nContent-Type: application/json\r\nTransfer-Encoding: chunked\r\nConnection: close\r\n\r\n", addr)
		payload := fmt.Sprintf("%x\r\n%s\r\nZZZ\r\n", len(rq.body), rq.body)
		if _, err := conn.Write([]byte(head + payload)); err != nil {
			return 0, nil, err
		}
	}
	if tc, ok := conn.(*net.TCPConn); ok && rq.raw != "slow-body" && rq.raw != "chunked" {
		tc.CloseWrite()
	}
	resp, err := http.ReadResponse(bufio.NewReader(conn), nil)
	if err != nil {
		return 0, nil, err
	}
	defer resp.Body.Close()
	b, _ := io.ReadAll(resp.Body)
	return resp.StatusCode, b, nil
}

// judge compares a response with the request's expectation. It returns "" when
// the response is what the property demands.
func judgeResponse(ks *keyset, rq *request, rs response) string {
	if rs.err != nil {
		return fmt.Sprintf("no response: %v", rs.err)
	}
	code := ""
	if rs.status == 400 {
		var e struct {
			Code    string `json:"code"`
			Message string `json:"message"`
		}
		if err := json.Unmarshal(rs.body, &e); err != nil {
			return fmt.Sprintf("400 body is not the documented JSON error object: %q", truncate(string(rs.body), 120))
		}
		code = e.Code
	}
	proofOK := func() string {
		coords, err := ref.ReadProofDoc(rs.body)
		if err != nil {
			return "200 body is not a proof document: " + err.Error()
		}
		pt, err := ref.PointsFromCoords(coords)
		if err != nil {
			return "200 body: " + err.Error()
		}
		if err := sysutil.Verify(pt, ks.ps.VerifyingKey, rq.hash); err != nil {
			return "200 body is a proof that does NOT verify against the request's input hash: " + err.Error()
		}
		return ""
	}
	switch rq.expect {
	case expect405:
		if rs.status != 405 {
			return fmt.Sprintf("status %d, expected 405", rs.status)
		}
	case expectMalformed:
		if rs.status != 400 || code != "malformed_body" {
			return fmt.Sprintf("status %d code %q, expected 400 malformed_body", rs.status, code)
		}
	case expectProving:
		if rs.status != 400 || code != "proving_error" {
			return fmt.Sprintf("status %d code %q, expected 400 proving_error", rs.status, code)
		}
	case expectEither400:
		if rs.status != 400 || (code != "proving_error" && code != "malformed_body") {
			return fmt.Sprintf("status %d code %q, expected 400 with a documented code", rs.status, code)
		}
	case expectValid:
		if rs.status != 200 {
			return fmt.Sprintf("status %d (%s), expected 200 for a valid batch", rs.status, truncate(string(rs.body), 160))
		}
		return proofOK()
	case expectLenient:
		if rs.status == 200 {
			return proofOK()
		}
		if rs.status != 400 || code != "proving_error" {
			return fmt.Sprintf("status %d code %q, expected 400 proving_error or 200", rs.status, code)
		}
	}
	return ""
}

func truncate(s string, n int) string {
	if len(s) > n {
		return s[:n] + "…"
	}
	return s
}

// ---- request generators ---------------------------------------------------------

var reqCounter int64
var validCounter int64

func newReq(class, method string, body []byte, expect string, hash *big.Int) *request {
	return &request{class: class, method: method, body: body, expect: expect, hash: hash, id: int(atomic.AddInt64(&reqCounter, 1))}
}

// validRequest builds a valid batch for ks in a PRNG-chosen number style.
func validRequest(r *rand.Rand, ks *keyset) *request {
	style := []string{"hex", "hex", "padhex", "dec", "HEX"}[r.Intn(5)]
	k := int(atomic.AddInt64(&validCounter, 1))
	if ks.mode == "insertion" {
		p := sysutil.InsParams(sysutil.ValidInsK(r, ks.d, ks.b, k))
		return newReq("valid", "POST", ref.MustJSON(ref.InsDoc(p, style)), expectValid, p.InputHash)
	}
	p := sysutil.DelParams(sysutil.ValidDelK(r, ks.d, ks.b, k))
	return newReq("valid", "POST", ref.MustJSON(ref.DelDoc(p, style)), expectValid, p.InputHash)
}

func validDoc(r *rand.Rand, ks *keyset) (map[string]any, *big.Int) {
	if ks.mode == "insertion" {
		p := sysutil.InsParams(sysutil.ValidIns(r, ks.d, ks.b))
		return ref.InsDoc(p, "hex"), p.InputHash
	}
	p := sysutil.DelParams(sysutil.ValidDel(r, ks.d, ks.b))
	return ref.DelDoc(p, "hex"), p.InputHash
}

// invalidBatchRequest: a well-formed document of the right shape that does not describe a valid batch.
func invalidBatchRequest(r *rand.Rand, ks *keyset) *request {
	for {
		if ks.mode == "insertion" {
			var inv []string
			for _, c := range cases.InsClasses {
				if strings.HasPrefix(c, "inv/") {
					inv = append(inv, c)
				}
			}
			cl := inv[r.Intn(len(inv))]
			c, ok := cases.BN254.Insertion(r, cl, ks.d, ks.b)
			if !ok || c.Valid || !sysutil.InsFits(c) {
				continue
			}
			return newReq("invalid-batch/"+cl, "POST", ref.MustJSON(ref.InsDoc(sysutil.InsParams(c), "hex")), expectProving, nil)
		}
		var inv []string
		for _, c := range cases.DelClasses {
			if strings.HasPrefix(c, "inv/") {
				inv = append(inv, c)
			}
		}
		cl := inv[r.Intn(len(inv))]
		c, ok := cases.BN254.Deletion(r, cl, ks.d, ks.b)
		if !ok || c.Valid || !sysutil.DelFits(c) {
			continue
		}
		return newReq("invalid-batch/"+cl, "POST", ref.MustJSON(ref.DelDoc(sysutil.DelParams(c), "hex")), expectProving, nil)
	}
}

func wrongHashRequest(r *rand.Rand, ks *keyset) *request {
	doc, h := validDoc(r, ks)
	bad := new(big.Int).Add(h, big.NewInt(int64(1+r.Intn(5))))
	if r.Intn(3) == 0 {
		bad = gen.Below(r, ref.R)
	}
	doc["inputHash"] = ref.Num(bad, "hex")
	return newReq("wrong-input-hash", "POST", ref.MustJSON(doc), expectProving, nil)
}

// shapeRequest: an otherwise valid document with one dimension off.
func shapeRequest(r *rand.Rand, ks *keyset) *request {
	doc, _ := validDoc(r, ks)
	arr := func(k string) []any { a, _ := doc[k].([]any); return append([]any{}, a...) }
	muts := []string{"ids+1", "ids-1", "proofs+1", "proofs-1", "inner+1", "inner-1", "inner-empty", "ids-empty", "proofs-empty", "ids-huge", "inner-huge"}
	if ks.mode == "deletion" {
		muts = append(muts, "indices+1", "indices-1", "indices-empty", "indices+1", "indices-1")
	}
	m := muts[r.Intn(len(muts))]
	num := func() any { return ref.Num(gen.Below(r, ref.R), "hex") }
	switch m {
	case "ids+1":
		doc["identityCommitments"] = append(arr("identityCommitments"), num())
	case "ids-1":
		a := arr("identityCommitments")
		doc["identityCommitments"] = a[:len(a)-1]
	case "proofs+1":
		a := arr("merkleProofs")
		doc["merkleProofs"] = append(a, a[0])
	case "proofs-1":
		a := arr("merkleProofs")
		doc["merkleProofs"] = a[:len(a)-1]
	case "inner+1":
		a := arr("merkleProofs")
		i := r.Intn(len(a))
		a[i] = append(append([]any{}, a[i].([]any)...), num())
		doc["merkleProofs"] = a
	case "inner-1":
		a := arr("merkleProofs")
		i := r.Intn(len(a))
		in := a[i].([]any)
		a[i] = append([]any{}, in[:len(in)-1]...)
		doc["merkleProofs"] = a
	case "inner-empty":
		a := arr("merkleProofs")
		a[r.Intn(len(a))] = []any{}
		doc["merkleProofs"] = a
	case "ids-empty":
		doc["identityCommitments"] = []any{}
	case "proofs-empty":
		doc["merkleProofs"] = []any{}
	case "ids-huge":
		a := arr("identityCommitments")
		for len(a) < 10000 {
			a = append(a, "0x1")
		}
		doc["identityCommitments"] = a
	case "inner-huge":
		a := arr("merkleProofs")
		in := append([]any{}, a[0].([]any)...)
		for len(in) < 5000 {
			in = append(in, "0x2")
		}
		a[0] = in
		doc["merkleProofs"] = a
	case "indices+1":
		doc["deletionIndices"] = append(arr("deletionIndices"), r.Intn(8))
	case "indices-1":
		a := arr("deletionIndices")
		doc["deletionIndices"] = a[:len(a)-1]
	case "indices-empty":
		doc["deletionIndices"] = []any{}
	}
	return newReq("wrong-shape/"+m, "POST", ref.MustJSON(doc), expectProving, nil)
}

var notNumbers = []string{"", "0x", "zz", "0xzz", " 1", "1 ", "1.5", "1e3", "0x 1", "--1", "abc", "0x12zz", "١", "0x+ff", "0x-1", "0x0x1"}

// malformedRequest: a body that is not a well-formed parameter document.
func malformedRequest(r *rand.Rand, ks *keyset) *request {
	doc, _ := validDoc(r, ks)
	good := ref.MustJSON(doc)
	numericFields := []string{"inputHash", "preRoot", "postRoot"}
	switch k := r.Intn(16); k {
	case 0:
		b := make([]byte, r.Intn(300))
		r.Read(b)
		if json.Valid(b) { // astronomically unlikely; keep the class honest
			b = append(b, '{')
		}
		return newReq("malformed/random-bytes", "POST", b, expectMalformed, nil)
	case 1:
		return newReq("malformed/empty-body", "POST", nil, expectMalformed, nil)
	case 2:
		lit := []string{"null", "[]", `"x"`, "123", "true", "{", "{}", "[1,2", `{"inputHash":`, "\x00", " "}[r.Intn(11)]
		return newReq("malformed/literal", "POST", []byte(lit), expectMalformed, nil)
	case 3: // truncated valid JSON
		cut := 1 + r.Intn(len(good)-1)
		return newReq("malformed/truncated-json", "POST", good[:cut], expectMalformed, nil)
	case 4: // trailing garbage
		return newReq("malformed/trailing-garbage", "POST", append(append([]byte{}, good...), []byte(" xyz")...), expectMalformed, nil)
	case 5: // wrong JSON type for a scalar field
		f := numericFields[r.Intn(3)]
		doc[f] = []any{5, true, nil, []any{"0x1"}, map[string]any{"a": 1}}[r.Intn(5)]
		if doc[f] == nil {
			return newReq("malformed/null-number", "POST", ref.MustJSON(doc), expectMalformed, nil)
		}
		return newReq("malformed/wrong-type-scalar", "POST", ref.MustJSON(doc), expectMalformed, nil)
	case 6: // wrong type inside arrays
		if r.Intn(2) == 0 {
			a := append([]any{}, doc["identityCommitments"].([]any)...)
			a[r.Intn(len(a))] = []any{7, true, []any{}, map[string]any{}}[r.Intn(4)]
			doc["identityCommitments"] = a
		} else {
			a := append([]any{}, doc["merkleProofs"].([]any)...)
			a[r.Intn(len(a))] = []any{"0x1", 3, map[string]any{}}[r.Intn(3)]
			doc["merkleProofs"] = a
		}
		return newReq("malformed/wrong-type-array", "POST", ref.MustJSON(doc), expectMalformed, nil)
	case 7, 8: // a non-number in a numeric position
		bad := notNumbers[r.Intn(len(notNumbers))]
		switch r.Intn(3) {
		case 0:
			doc[numericFields[r.Intn(3)]] = bad
		case 1:
			a := append([]any{}, doc["identityCommitments"].([]any)...)
			a[r.Intn(len(a))] = bad
			doc["identityCommitments"] = a
		default:
			a := append([]any{}, doc["merkleProofs"].([]any)...)
			i := r.Intn(len(a))
			in := append([]any{}, a[i].([]any)...)
			in[r.Intn(len(in))] = bad
			a[i] = in
			doc["merkleProofs"] = a
		}
		return newReq("malformed/not-a-number", "POST", ref.MustJSON(doc), expectMalformed, nil)
	case 9: // index out of range / wrong type
		badIdx := []string{"-1", "4294967296", "1.5", `"1"`, "18446744073709551616", "1e10", "[0]", "true"}[r.Intn(8)]
		if ks.mode == "insertion" {
			return newReq("malformed/bad-index", "POST", replaceRaw(doc, "startIndex", badIdx), expectMalformed, nil)
		}
		a := append([]any{}, doc["deletionIndices"].([]any)...)
		a[r.Intn(len(a))] = json.RawMessage(badIdx)
		doc["deletionIndices"] = a
		return newReq("malformed/bad-index", "POST", ref.MustJSON(doc), expectMalformed, nil)
	case 10: // a scalar field missing
		f := numericFields[r.Intn(3)]
		delete(doc, f)
		return newReq("malformed/missing-"+f, "POST", ref.MustJSON(doc), expectMalformed, nil)
	case 11: // deep nesting / very large garbage
		if r.Intn(2) == 0 {
			return newReq("malformed/deep-nesting", "POST", []byte(strings.Repeat("[", 20000)), expectMalformed, nil)
		}
		return newReq("malformed/large-garbage", "POST", bytes.Repeat([]byte("a"), 1<<20), expectMalformed, nil)
	case 12: // body read fails although the bytes received are a complete valid document
		rq := newReq("malformed/short-body", "POST", good, expectMalformed, nil)
		rq.raw = "short-body"
		return rq
	case 13:
		rq := newReq("malformed/bad-chunk", "POST", good, expectMalformed, nil)
		rq.raw = "bad-chunk"
		return rq
	case 14: // array field missing: the property does not say which 400 code
		f := []string{"identityCommitments", "merkleProofs"}[r.Intn(2)]
		if ks.mode == "deletion" && r.Intn(3) == 0 {
			f = "deletionIndices"
		}
		if r.Intn(2) == 0 {
			delete(doc, f)
		} else {
			doc[f] = nil
		}
		return newReq("underspecified/missing-array", "POST", ref.MustJSON(doc), expectEither400, nil)
	default: // invalid UTF-8 inside a number
		b := bytes.Replace(good, []byte(`"preRoot":"0x`), []byte("\"preRoot\":\"0x\xff"), 1)
		return newReq("malformed/invalid-utf8", "POST", b, expectMalformed, nil)
	}
}

func replaceRaw(doc map[string]any, field, raw string) []byte {
	doc[field] = json.RawMessage(raw)
	return ref.MustJSON(doc)
}

var otherMethods = []string{"GET", "PUT", "DELETE", "PATCH", "HEAD", "OPTIONS"}

func methodRequest(r *rand.Rand, ks *keyset) *request {
	m := otherMethods[r.Intn(len(otherMethods))]
	var body []byte
	if r.Intn(2) == 0 {
		doc, _ := validDoc(r, ks)
		body = ref.MustJSON(doc) // a perfectly valid body must not matter
	}
	return newReq("method/"+m, m, body, expect405, nil)
}

// lenientRequest: values outside [0, r) which the prover reduces silently; the property does not say which outcome.
func lenientRequest(r *rand.Rand, ks *keyset) *request {
	doc, h := validDoc(r, ks)
	f := []string{"preRoot", "postRoot"}[r.Intn(2)]
	v, _ := new(big.Int).SetString(doc[f].(string), 0)
	doc[f] = ref.Num(new(big.Int).Add(v, ref.R), "hex")
	return newReq("lenient/value+r", "POST", ref.MustJSON(doc), expectLenient, h)
}

// paddedRequest: a valid batch whose JSON text is padded with insignificant whitespace to a few MB
// (bodies of that size are normal at production dimensions).
func paddedRequest(r *rand.Rand, ks *keyset) *request {
	doc, h := validDoc(r, ks)
	b := ref.MustJSON(doc)
	pad := bytes.Repeat([]byte(" "), (1+r.Intn(3))<<20)
	cut := bytes.IndexByte(b, ',') + 1
	body := append(append(append([]byte{}, b[:cut]...), pad...), b[cut:]...)
	return newReq("valid/whitespace-padded", "POST", body, expectValid, h)
}

// hugeRequest: a valid batch padded to 9-12 MB, or as much garbage.
func hugeRequest(r *rand.Rand, ks *keyset, valid bool) *request {
	n := (9 + r.Intn(4)) << 20
	if !valid {
		return newReq("malformed/huge-garbage", "POST", bytes.Repeat([]byte("x"), n), expectMalformed, nil)
	}
	doc, h := validDoc(r, ks)
	b := ref.MustJSON(doc)
	cut := bytes.IndexByte(b, ',') + 1
	body := append(append(append([]byte{}, b[:cut]...), bytes.Repeat([]byte(" "), n)...), b[cut:]...)
	return newReq("valid/huge-whitespace-padded", "POST", body, expectValid, h)
}

// extraFieldRequest: unknown fields are ignored; a valid batch stays valid.
func extraFieldRequest(r *rand.Rand, ks *keyset) *request {
	doc, h := validDoc(r, ks)
	doc["comment"] = "ignored"
	doc["extra"] = []any{1, 2, 3}
	rq := newReq("valid/extra-fields", "POST", ref.MustJSON(doc), expectValid, h)
	return rq
}

// ---- metrics ---------------------------------------------------------------------

type scrape struct {
	call, ret int64
	totals    map[string]int
	gauge     int
	other     []string
	err       error
}

func scrapeMetrics(addr string) scrape {
	s := scrape{call: now()}
	c := http.Client{Timeout: 60 * time.Second}
	resp, err := c.Get("http://" + addr + "/metrics")
	if err != nil {
		s.err = err
		s.ret = now()
		return s
	}
	b, err := io.ReadAll(resp.Body)
	resp.Body.Close()
	s.ret = now()
	if err != nil || resp.StatusCode != 200 {
		s.err = fmt.Errorf("status %d err %v", resp.StatusCode, err)
		return s
	}
	samples, err := ref.ParseProm(b)
	if err != nil {
		s.err = err
		return s
	}
	s.totals, s.gauge, s.other = ref.RequestTotals(samples, "/prove")
	return s
}

// abandonedClients: clients send a complete, valid request and hang up before the answer (40-160 ms later, i.e.
// while it is being proved or queued). What those clients did must not decide what the NEXT client gets: a valid
// request sent afterwards must be proved, an unsatisfiable one get its error.
func abandonedClients(o *cli.Opts, run *evid.Run, ks *keyset, srv *proc.Server, key string, waves int) {
	if !run.Wants(key) {
		return
	}
	r := gen.RNG(o.Seed, key)
	for wave := 0; wave < waves; wave++ {
		var wg sync.WaitGroup
		for i := 0; i < 4; i++ {
			rq := validRequest(r, ks)
			hold := time.Duration(40+r.Intn(120)) * time.Millisecond
			wg.Add(1)
			go func() {
				defer wg.Done()
				conn, err := net.DialTimeout("tcp", srv.ProverAddr, 10*time.Second)
				if err != nil {
					return
				}
				fmt.Fprintf(conn, "POST /prove HTTP/1.1\r\nHost: %s\r\nContent-Type: application/json\r\nContent-Length: %d\r\n\r\n", srv.ProverAddr, len(rq.body))
				conn.Write(rq.body)
				time.Sleep(hold)
				conn.Close()
			}()
		}
		wg.Wait()
		run.Add("abandoned_requests", 4)
	}
	for i, rq := range []*request{validRequest(r, ks), invalidBatchRequest(r, ks), validRequest(r, ks)} {
		rs := send(srv.ProverAddr, rq, 3*time.Minute)
		p := judgeResponse(ks, rq, rs)
		if p != "" {
			run.Violate(fmt.Sprintf("%s/after/%d/%s", key, i, rq.class), fmt.Sprintf("%s request (%s) sent after other clients hung up on their requests: %s", ks.mode, rq.class, p), map[string]any{"request_body": truncate(string(rq.body), 1500)})
		}
		run.Case(ks.mode+"/after-abandoned-clients", true, key+string(rq.body), p == "" && rs.status == 200, map[string]any{"class": rq.class, "status": rs.status})
	}
}

// pendingUpload decides "a request is answered on its own, whatever another client is doing": client A has sent the
// headers and the first half of a valid body and is INSIDE the handler (confirmed through the in-flight gauge); while
// A's upload is pending, a valid, an unsatisfiable and a malformed request are sent and must all be answered; only then
// does A deliver the rest of its body, and must get its proof. The order is causal, not timed: A does not continue
// before the others have returned (or hit their watchdog, which is the violation).
func pendingUpload(o *cli.Opts, run *evid.Run, ks *keyset, srv *proc.Server, key string) {
	if !run.Wants(key) {
		return
	}
	r := gen.RNG(o.Seed, key)
	a := validRequest(r, ks)
	a.raw, a.gate, a.half, a.class = "slow-body", make(chan struct{}), make(chan struct{}), "valid/upload-pending"
	var ars response
	adone := make(chan struct{})
	go func() { ars = send(srv.ProverAddr, a, 20*time.Minute); close(adone) }()
	select {
	case <-a.half:
	case <-adone:
	}
	if !waitInFlight(srv.MetricsAddr, 1, 60*time.Second) {
		run.Inconclusive(key + ": the pending upload never showed in the in-flight gauge")
		close(a.gate)
		<-adone
		return
	}
	others := []*request{validRequest(r, ks), invalidBatchRequest(r, ks), malformedRequest(r, ks), methodRequest(r, ks)}
	res := make([]response, len(others))
	var wg sync.WaitGroup
	for i := range others {
		i := i
		if others[i].raw != "" {
			others[i] = methodRequest(r, ks)
		}
		wg.Add(1)
		go func() { defer wg.Done(); res[i] = send(srv.ProverAddr, others[i], 3*time.Minute) }()
	}
	wg.Wait()
	for i, rq := range others {
		p := judgeResponse(ks, rq, res[i])
		if p != "" {
			run.Violate(fmt.Sprintf("%s/other%d/%s", key, i, rq.class), fmt.Sprintf("%s request (%s) sent while ANOTHER client's upload was still pending: %s", ks.mode, rq.class, p), map[string]any{"request_body": truncate(string(rq.body), 1500)})
		}
		run.Case(ks.mode+"/while-upload-pending", true, key+rq.method+string(rq.body), p == "" && res[i].status == 200, map[string]any{"class": rq.class, "status": res[i].status, "latency_ms": (res[i].ret - res[i].call) / 1e6})
	}
	close(a.gate)
	<-adone
	if p := judgeResponse(ks, a, ars); p != "" {
		run.Violate(key+"/uploader", fmt.Sprintf("%s request whose upload was pending while others were served: %s", ks.mode, p), nil)
	}
	run.Case(ks.mode+"/upload-pending", true, key+string(a.body), ars.status == 200, map[string]any{"status": ars.status})
	run.Add("pending_upload_rounds", 1)
}

// waitInFlight polls the in-flight gauge until it equals k (a logical condition; the deadline is a watchdog).
func waitInFlight(addr string, k int, watchdog time.Duration) bool {
	deadline := time.Now().Add(watchdog)
	for time.Now().Before(deadline) {
		s := scrapeMetrics(addr)
		if s.err == nil && s.gauge == k {
			return true
		}
		time.Sleep(20 * time.Millisecond)
	}
	return false
}

// startServer starts `gnark-mbu start` for ks.
func startServer(bin string, ks *keyset, o *cli.Opts, tag string, env []string, extra ...string) (*proc.Server, error) {
	return proc.StartServer(bin, ks.mode, ks.path, o.Scratch, tag, env, extra...)
}
