// svcmon: monitors of the real server (C09 C13 C14 C20). The server runs as a
// child process built from the current tree (-tags verif, -race where stated);
// clients record call/return at their own boundary; oracles are per-request
// specifications, the race detector's log, the hook event log and porcupine.
package main

import (
	"os"

	"github.com/consensys/gnark/logger"
	"github.com/rs/zerolog"

	"worldcoin/gnark-mbu/logging"

	"verifmon/internal/cli"
	"verifmon/internal/evid"
)

var monitors = map[string]func(*cli.Opts, *evid.Run){"C09": runC09, "C13": runC13, "C14": runC14, "C20": runC20}

func main() {
	logger.Disable()
	*logging.Logger() = zerolog.Nop()
	if len(os.Args) > 1 && os.Args[1] == "c14worker" {
		c14Worker(os.Args[2:])
		return
	}
	if len(os.Args) > 1 && os.Args[1] == "c20worker" {
		c20Worker(os.Args[2:])
		return
	}
	levels := map[string]string{"C09": "exploration", "C13": "exploration", "C14": "exploration", "C20": "exploration"}
	o, run := cli.Parse(levels)
	cli.Guard("monitor body", func() { monitors[o.Prop](o, run) })
	os.Exit(run.Finish())
}
