package main

import (
	"fmt"
	"os"
	"sort"
	"strconv"
	"strings"
	"sync"
	"time"

	"github.com/anishathalye/porcupine"

	"verifmon/internal/cli"
	"verifmon/internal/evid"
	"verifmon/internal/gen"
	"verifmon/internal/proc"
)

type clientOp struct {
	client int
	method string
	class  string
	status int
	call   int64
	ret    int64
	err    string
}

type counterIn struct {
	Read bool
	Key  string
}

// counterModel: one monotone counter per (method, code) key, partitioned by key.
var counterModel = porcupine.Model{
	Partition: func(history []porcupine.Operation) [][]porcupine.Operation {
		by := map[string][]porcupine.Operation{}
		for _, op := range history {
			k := op.Input.(counterIn).Key
			by[k] = append(by[k], op)
		}
		keys := make([]string, 0, len(by))
		for k := range by {
			keys = append(keys, k)
		}
		sort.Strings(keys)
		out := make([][]porcupine.Operation, 0, len(keys))
		for _, k := range keys {
			out = append(out, by[k])
		}
		return out
	},
	Init: func() interface{} { return 0 },
	Step: func(state, input, output interface{}) (bool, interface{}) {
		in := input.(counterIn)
		if !in.Read {
			return true, state.(int) + 1
		}
		return output.(int) == state.(int), state
	},
	DescribeOperation: func(input, output interface{}) string {
		in := input.(counterIn)
		if in.Read {
			return fmt.Sprintf("scrape %s -> %v", in.Key, output)
		}
		return "response " + in.Key
	},
}

func runC20(o *cli.Opts, run *evid.Run) {
	run.Rule("one case = one client operation (request to /prove, recorded at the client boundary as {client, method, status, call, return}) or one scrape of /metrics (recorded as {call, return, http_requests_total map, in-flight gauge}) on a real server child, in a sequential phase and concurrent phases (8 and 16 clients, mixed methods and valid/unsatisfiable/malformed/body-read-failure requests) with a scraper running throughout; " +
		"checkers: porcupine linearizability of the history against a counter per (method, code) [request = increment inside its call/return interval, scrape = read], final conservation scraped totals == client tally with gauge 0 after quiescence, gauge bounds on every scrape, scrapes completing while proofs are in flight; non-trivial = distinct operation")
	run.Assume("promhttp increments the counter before the handler chain returns and net/http flushes these small responses only afterwards, so an increment takes effect between the client's call and return",
		"only standard methods are sent (promhttp folds others into 'unknown'); clients never abort a request")
	bin, err := proc.BuildBinary(o.Out, o.Scratch, o.Repo, false)
	if err != nil {
		run.Violate("C20/build", err.Error(), nil)
		return
	}
	modes := []string{"insertion", "deletion"}
	var wg sync.WaitGroup
	for _, mode := range modes {
		mode := mode
		wg.Add(1)
		go func() {
			defer wg.Done()
			c20Mode(o, run, bin, mode, "")
		}()
	}
	for _, mode := range modes {
		mode := mode
		wg.Add(1)
		go func() { defer wg.Done(); c20Instances(o, run, mode) }()
	}
	wg.Wait()
	if o.Thorough() {
		if rbin, err := proc.BuildBinary(o.Out, o.Scratch, o.Repo, true); err == nil {
			c20Mode(o, run, rbin, "insertion", "race")
		}
	}
	run.Require("client operations", run.GetInt("client_ops"), 300)
	run.Require("scrapes", run.GetInt("scrapes"), 30)
	run.Require("scrapes completed while a proof was in flight", run.GetInt("scrapes_during_proof"), 2)
	run.Require("histories checked by porcupine", run.GetInt("porcupine_ok"), 2)
	run.Require("max client overlap", run.GetInt("max_overlap"), 4)
	run.Require("long-lived (>30 s) requests", run.GetInt("slow_requests"), 1)
	run.Require("quiescent gauge reads between bursts", run.GetInt("quiescent_gauge_reads"), 200)
	run.Require("server instances started in a process that had already run one", run.GetInt("instance_rounds")-2, 2)
}

func c20Mode(o *cli.Opts, run *evid.Run, bin, mode, variant string) {
	key := "C20/" + mode + variant
	if !run.Wants(key) && run.Only != "" {
		return
	}
	ks, err := makeKeys(o, mode, 3, 2)
	if err != nil {
		run.Violate(key+"/setup", "setup failed: "+err.Error(), nil)
		return
	}
	env := []string{}
	if variant == "race" {
		env = append(env, "GORACE=halt_on_error=0 log_path="+o.Scratch+"/c20race")
	}
	srv, err := startServer(bin, ks, o, "c20-"+mode+variant, env)
	if err != nil {
		run.Inconclusive(key + ": server did not start: " + err.Error())
		return
	}
	defer srv.Kill()
	var mu sync.Mutex
	var ops []clientOp
	var scrapes []scrape
	liveTally := map[string]int{} // responses received so far, by (method, code): exact at quiescent points
	record := func(op clientOp) {
		mu.Lock()
		ops = append(ops, op)
		if op.err == "" {
			liveTally[strings.ToLower(op.method)+"/"+fmt.Sprint(op.status)]++
		}
		mu.Unlock()
	}
	// scraper throughout
	stopScrape := make(chan struct{})
	var sw sync.WaitGroup
	sw.Add(1)
	go func() {
		defer sw.Done()
		for {
			select {
			case <-stopScrape:
				return
			default:
			}
			s := scrapeMetrics(srv.MetricsAddr)
			mu.Lock()
			scrapes = append(scrapes, s)
			many := len(scrapes) > 2000
			mu.Unlock()
			if many {
				time.Sleep(400 * time.Millisecond) // long (thorough) histories: keep the history checkable
			} else {
				time.Sleep(40 * time.Millisecond)
			}
		}
	}()
	do := func(client int, rq *request) {
		if liveness.hung() && run.Violations() > 0 {
			return // the server stopped answering: the violations already recorded are the verdict
		}
		rs := send(srv.ProverAddr, rq, 10*time.Minute)
		op := clientOp{client: client, method: rq.method, class: rq.class, status: rs.status, call: rs.call, ret: rs.ret}
		if rs.err != nil {
			op.err = rs.err.Error()
		}
		record(op)
		if p := judgeResponse(ks, rq, rs); p != "" {
			run.Violate(fmt.Sprintf("%s/response/%d", key, rq.id), fmt.Sprintf("%s request (%s): %s", mode, rq.class, p), map[string]any{"request_body": truncate(string(rq.body), 2000)})
		}
	}
	mix := func(r interface{ Intn(int) int }, rr func() *request) *request { return rr() }
	_ = mix
	phase := func(name string, clients, perClient int) {
		var pw sync.WaitGroup
		for c := 0; c < clients; c++ {
			c := c
			pw.Add(1)
			go func() {
				defer pw.Done()
				r := gen.RNG(o.Seed, fmt.Sprintf("%s/%s/client%d", key, name, c))
				for i := 0; i < perClient; i++ {
					var rq *request
					switch k := r.Intn(100); {
					case k < 10:
						rq = validRequest(r, ks)
					case k < 40:
						rq = methodRequest(r, ks)
					case k < 60:
						rq = malformedRequest(r, ks)
						if rq.expect == expectEither400 {
							rq = wrongHashRequest(r, ks)
						}
					case k < 70:
						rq = shapeRequest(r, ks)
					default:
						rq = invalidBatchRequest(r, ks)
					}
					do(c, rq)
				}
			}()
		}
		pw.Wait()
	}
	// one request that stays in flight for a long time (its body arrives in two segments far apart):
	// it must be answered and counted like any other
	var slow sync.WaitGroup
	slow.Add(1)
	go func() {
		defer slow.Done()
		rq := validRequest(gen.RNG(o.Seed, key+"/slow"), ks)
		rq.raw = "slow-body"
		rq.pause = o.Pick(33000, 130000)
		rq.class = "valid/slow-upload"
		do(99, rq)
		run.Add("slow_requests", 1)
	}()
	for hi, valid := range []bool{true, false} {
		do(98, hugeRequest(gen.RNG(o.Seed, fmt.Sprintf("%s/huge/%d", key, hi)), ks, valid))
	}
	phase("sequential", 1, o.Pick(40, 400))
	phase("concurrent8", 8, o.Pick(14, 200))
	phase("concurrent16", 16, o.Pick(10, 200))
	slow.Wait()
	// "the metrics endpoint stays available while proofs are being generated", decided causally: six requests are
	// INSIDE the prove handler (first half of the body sent, the rest withheld); a scrape must be answered and show all
	// six in flight before any of them is allowed to continue
	if pk := key + "/pending-6"; run.Wants(pk) && !(liveness.hung() && run.Violations() > 0) {
		var pw sync.WaitGroup
		var gates []chan struct{}
		for i := 0; i < 6; i++ {
			rq := validRequest(gen.RNG(o.Seed, fmt.Sprintf("%s/%d", pk, i)), ks)
			rq.raw, rq.gate, rq.half, rq.class = "slow-body", make(chan struct{}), make(chan struct{}), "valid/upload-pending"
			gates = append(gates, rq.gate)
			pw.Add(1)
			go func(i int) { defer pw.Done(); do(200+i, rq) }(i)
			select {
			case <-rq.half:
			case <-time.After(30 * time.Second):
			}
		}
		if !waitInFlight(srv.MetricsAddr, 6, 90*time.Second) {
			run.Violate(pk, "with six prove requests pending inside the handler, the metrics endpoint did not (within 90 s) answer a scrape showing them in flight", nil)
		}
		run.Add("scrapes_with_six_pending", 1)
		for _, g := range gates {
			close(g)
		}
		pw.Wait()
	}
	// bursts of cheap requests that finish within microseconds of one another, each followed by a quiescent scrape:
	// with nothing outstanding the in-flight gauge must read 0 (a gauge published out of order stays stuck until
	// the next request overwrites it, so it has to be looked at between bursts, not only at the end)
	burstsFrom := now() // everything before this moment goes to porcupine; the bursts are decided by exact counts at quiescent points
	for b := 0; b < o.Pick(250, 1500); b++ {
		bkey := fmt.Sprintf("%s/burst/%d", key, b)
		if liveness.hung() && run.Violations() > 0 {
			break
		}
		r := gen.RNG(o.Seed, bkey)
		n := []int{16, 8, 24, 12, 32}[b%5]
		reqs := make([]*request, n)
		for i := range reqs {
			switch r.Intn(3) {
			case 0:
				reqs[i] = methodRequest(r, ks)
			case 1:
				reqs[i] = shapeRequest(r, ks)
			default:
				reqs[i] = malformedRequest(r, ks)
				if reqs[i].expect == expectEither400 || reqs[i].raw != "" {
					reqs[i] = methodRequest(r, ks)
				}
			}
		}
		var bw sync.WaitGroup
		release := make(chan struct{})
		for i := range reqs {
			i := i
			bw.Add(1)
			go func() {
				defer bw.Done()
				<-release
				do(100+i, reqs[i])
			}()
		}
		close(release)
		bw.Wait()
		// every client has its complete response: quiescent. A reading that is still settling is re-read; only a
		// gauge that STAYS away from zero is reported.
		var sc scrape
		mu.Lock()
		want := map[string]int{}
		for k, v := range liveTally {
			want[k] = v
		}
		mu.Unlock()
		sameTotals := func(got map[string]int) string {
			for k, v := range want {
				if got[k] != v {
					return fmt.Sprintf("%s: %d responses received, metrics say %d", k, v, got[k])
				}
			}
			for k, v := range got {
				if want[k] != v {
					return fmt.Sprintf("%s: %d responses received, metrics say %d", k, want[k], v)
				}
			}
			return ""
		}
		for try := 0; try < 6; try++ {
			sc = scrapeMetrics(srv.MetricsAddr)
			if sc.err == nil && sc.gauge == 0 && sameTotals(sc.totals) == "" {
				break
			}
			time.Sleep(150 * time.Millisecond)
		}
		if sc.err != nil {
			run.Violate(bkey+"/scrape", "the metrics endpoint does not answer between bursts: "+sc.err.Error(), nil)
		} else if d := sameTotals(sc.totals); d != "" {
			run.Violate(bkey+"/conservation", fmt.Sprintf("with nothing outstanding after burst %d the request totals differ from the responses received: %s", b, d), map[string]any{"burst": b, "size": n})
		} else if sc.gauge != 0 {
			run.Violate(bkey+"/gauge", fmt.Sprintf("in-flight gauge stays at %d after a burst of %d requests has been answered completely and nothing is outstanding", sc.gauge, n), map[string]any{"burst": b, "size": n})
		}
		run.Add("quiescent_gauge_reads", 1)
	}
	close(stopScrape)
	sw.Wait()
	// quiescence: all clients returned; final scrape
	final := scrapeMetrics(srv.MetricsAddr)
	run.Stage(mode + variant + "/load")
	if final.err != nil {
		run.Violate(key+"/final-scrape", "the metrics endpoint does not answer after the load: "+final.err.Error(), nil)
		return
	}
	// client tally of responses actually received
	tally := map[string]int{}
	failed := 0
	for _, op := range ops {
		if op.err != "" {
			failed++
			continue
		}
		tally[strings.ToLower(op.method)+"/"+fmt.Sprint(op.status)]++
	}
	run.Add("client_ops", len(ops))
	run.Add("scrapes", len(scrapes))
	for _, op := range ops {
		run.Case(mode+variant+"/request/"+strings.ToLower(op.method)+"/"+fmt.Sprint(op.status), true, fmt.Sprintf("%s %d %d", key, op.client, op.call), op.status == 200,
			map[string]any{"client": op.client, "method": op.method, "status": op.status, "class": op.class, "call_ns": op.call, "return_ns": op.ret})
	}
	if failed > 0 {
		run.Violate(key+"/transport", fmt.Sprintf("%d client operations got no response", failed), nil)
		return
	}
	// (2) conservation
	diff := []string{}
	keys := map[string]bool{}
	for k := range tally {
		keys[k] = true
	}
	for k := range final.totals {
		keys[k] = true
	}
	for k := range keys {
		if tally[k] != final.totals[k] {
			diff = append(diff, fmt.Sprintf("%s: sent %d, metrics %d", k, tally[k], final.totals[k]))
		}
	}
	sort.Strings(diff)
	witness := map[string]any{"client_tally": tally, "metrics": final.totals, "gauge": final.gauge}
	if len(diff) > 0 {
		run.Violate(key+"/conservation", "request totals differ from the responses actually sent: "+strings.Join(diff, "; "), witness)
	}
	if final.gauge != 0 {
		run.Violate(key+"/gauge", fmt.Sprintf("in-flight gauge is %d after all requests completed", final.gauge), witness)
	}
	if len(final.other) > 0 {
		run.Violate(key+"/labels", "unexpected request metrics: "+strings.Join(final.other, "; "), nil)
	}
	run.Case(mode+variant+"/final-conservation", true, key+"/final", len(diff) == 0, witness)
	// (3) gauge bounds and availability on every scrape
	overlapMax := 0
	for _, s := range scrapes {
		if s.err != nil {
			run.Violate(key+"/scrape", "a scrape during load failed: "+s.err.Error(), nil)
			continue
		}
		overlapping, proving := 0, 0
		for _, op := range ops {
			if op.call <= s.ret && op.ret >= s.call {
				overlapping++
			}
			if op.status == 200 && op.call < s.call && op.ret > s.ret {
				proving++
			}
		}
		if s.gauge < 0 || s.gauge > overlapping {
			// witness: the operations that returned last before this scrape
			var before []clientOp
			for _, op := range ops {
				if op.ret < s.call {
					before = append(before, op)
				}
			}
			sort.Slice(before, func(i, j int) bool { return before[i].ret > before[j].ret })
			if len(before) > 12 {
				before = before[:12]
			}
			var w []string
			for _, op := range before {
				w = append(w, fmt.Sprintf("%s %s -> %d (returned %.1f ms before the scrape)", op.method, op.class, op.status, float64(s.call-op.ret)/1e6))
			}
			run.Violate(key+"/gauge-bound", fmt.Sprintf("in-flight gauge %d with only %d client operations overlapping the scrape", s.gauge, overlapping), map[string]any{"scrape_call_ns": s.call, "last_returned_operations": w})
		}
		if proving > 0 {
			run.Add("scrapes_during_proof", 1)
		}
		run.Case(mode+variant+"/scrape", true, fmt.Sprintf("%s %d", key, s.call), true, map[string]any{"call_ns": s.call, "return_ns": s.ret, "gauge": s.gauge, "totals": s.totals})
	}
	// max overlap among client operations (sweep line)
	type ev struct {
		t int64
		d int
	}
	var evs []ev
	for _, op := range ops {
		evs = append(evs, ev{op.call, 1}, ev{op.ret, -1})
	}
	sort.Slice(evs, func(i, j int) bool { return evs[i].t < evs[j].t || (evs[i].t == evs[j].t && evs[i].d < evs[j].d) })
	cur := 0
	for _, e := range evs {
		cur += e.d
		if cur > overlapMax {
			overlapMax = cur
		}
	}
	run.Max("max_overlap", overlapMax)
	// (1) porcupine
	// The linearizability search keeps a cache whose entries grow with the length of the history, so a history of tens
	// of thousands of operations (thorough tier) needs tens of GB. Long histories are therefore checked up to a
	// QUIESCENT cut (a moment when no request and no scrape is in flight) after at most porcupineCap operations: a
	// prefix that ends at a quiescent point is a complete history of its own (counters start at 0). The rest of the
	// run is still covered by the conservation, gauge and burst checks above.
	porcupineCap := 9000
	if v, err := strconv.Atoi(os.Getenv("VERIF_PORCUPINE_CAP")); err == nil && v > 0 {
		porcupineCap = v // debug knob: exercise the cut on a short history
	}
	cutT := int64(0)
	{
		type iv struct {
			t int64
			d int
		}
		var evs2 []iv
		isOpRet := map[int64]int{}
		for _, op := range ops {
			evs2 = append(evs2, iv{op.call, 1}, iv{op.ret, -1})
			isOpRet[op.ret]++
		}
		for _, sc := range scrapes {
			evs2 = append(evs2, iv{sc.call, 1}, iv{sc.ret, -1})
		}
		sort.Slice(evs2, func(i, j int) bool { return evs2[i].t < evs2[j].t || (evs2[i].t == evs2[j].t && evs2[i].d > evs2[j].d) })
		inflight, doneOps := 0, 0
		for _, e := range evs2 {
			inflight += e.d
			if e.d < 0 && isOpRet[e.t] > 0 {
				isOpRet[e.t]--
				doneOps++
			}
			// the last quiescent moment before the bursts begin
			if inflight == 0 && doneOps <= porcupineCap && e.t <= burstsFrom {
				cutT = e.t
			}
		}
		if cutT == 0 {
			run.Inconclusive(key + ": no quiescent point before the burst phase; porcupine not run")
			return
		}
		run.Add("porcupine_histories_cut_at_quiescent_point", 1)
	}
	var history []porcupine.Operation
	for _, op := range ops {
		if op.ret > cutT {
			continue
		}
		history = append(history, porcupine.Operation{ClientId: op.client, Input: counterIn{Key: strings.ToLower(op.method) + "/" + fmt.Sprint(op.status)}, Call: op.call, Output: 0, Return: op.ret})
	}
	run.Add("porcupine_operations_checked", len(history))
	all := append(append([]scrape{}, scrapes...), final)
	for si, s := range all {
		if s.err != nil || s.ret > cutT {
			continue
		}
		for k := range keys {
			history = append(history, porcupine.Operation{ClientId: 1000 + si, Input: counterIn{Read: true, Key: k}, Call: s.call, Output: s.totals[k], Return: s.ret})
		}
	}
	res, info := porcupine.CheckOperationsVerbose(counterModel, history, time.Duration(o.Pick(3, 15))*time.Minute)
	switch res {
	case porcupine.Ok:
		run.Add("porcupine_ok", 1)
	case porcupine.Unknown:
		run.Inconclusive(key + ": porcupine timed out on the request/scrape history")
	case porcupine.Illegal:
		_ = info
		// find a key whose sub-history is illegal, for a readable witness
		bad := []string{}
		for k := range keys {
			var sub []porcupine.Operation
			for _, h := range history {
				if h.Input.(counterIn).Key == k {
					sub = append(sub, h)
				}
			}
			if r := porcupine.CheckOperations(counterModel, sub); !r {
				bad = append(bad, k)
			}
		}
		sort.Strings(bad)
		run.Violate(key+"/linearizability", "the request/scrape history is not linearizable against a per-(method,code) counter (a response was counted twice, never, under another label, or a total went backwards); keys: "+strings.Join(bad, ", "), witness)
	}
	run.Set("history_operations_"+mode+variant, len(history))
	run.Stage(mode + variant + "/checked")
	if marks := srv.CrashMarks(); len(marks) > 0 {
		run.Violate(key+"/crash-marks", fmt.Sprintf("server output carries crash marks %v", marks), map[string]any{"stderr_tail": tailStr(srv.Stderr(), 3000)})
	}
}
