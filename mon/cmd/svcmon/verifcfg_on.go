//go:build verif

package main

import "worldcoin/gnark-mbu/server"

func configureHooks(eventlog, delays string, seed int64) {
	server.VerifConfigure(eventlog, delays, seed)
}

const hooksCompiled = true
