package main

import (
	"bufio"
	"bytes"
	"encoding/json"
	"flag"
	"fmt"
	"io"
	"net"
	"net/http"
	"os"
	"os/exec"
	"path/filepath"
	"runtime"
	"strings"
	"sync"
	"syscall"
	"time"

	"worldcoin/gnark-mbu/prover"
	"worldcoin/gnark-mbu/server"

	"verifmon/internal/cli"
	"verifmon/internal/evid"
	"verifmon/internal/gen"
	"verifmon/internal/proc"
)

// ---- cycle plans ------------------------------------------------------------------

type c14Cycle struct {
	Name      string `json:"name"`
	Timing    string `json:"timing"` // immediate | ports-up | inflight | after-completion
	K         int    `json:"k"`      // in-flight requests
	Delays    string `json:"delays"` // hook delays for this cycle
	Mix       bool   `json:"mix"`    // in-flight requests are a mix of valid and invalid
	LongHoldS int    `json:"long_hold_s"`
	Resignal  int    `json:"resignal"` // CLI only: extra SIGINTs delivered while the drain is in progress
	Scrape    bool   `json:"scrape"`   // CLI only: a /metrics request is in flight (head partly sent) when the stop arrives
}

func c14Plan(o *cli.Opts, cliMode bool) []c14Cycle {
	var out []c14Cycle
	add := func(c c14Cycle) { out = append(out, c) }
	stages := []string{"prove.afterRead", "prove.afterDecode", "prove.afterProve"}
	if cliMode {
		add(c14Cycle{Name: "cli/ports-up", Timing: "ports-up"})
		add(c14Cycle{Name: "cli/inflight-1-afterDecode", Timing: "inflight", K: 1, Delays: "prove.afterDecode=700:200"})
		add(c14Cycle{Name: "cli/inflight-3-afterProve-mixed", Timing: "inflight", K: 3, Mix: true, Delays: "prove.afterProve=700:300,job.stopRequested=40"})
		add(c14Cycle{Name: "cli/inflight-2-before-body-read", Timing: "inflight", K: 2, Delays: "prove.enter=900:300"})
		add(c14Cycle{Name: "cli/inflight-1-scrape-in-flight", Timing: "inflight", K: 1, Delays: "prove.afterDecode=1200:200", Scrape: true})
		add(c14Cycle{Name: "cli/inflight-2-repeated-sigint", Timing: "inflight", K: 2, Delays: "prove.afterDecode=1500:300", Resignal: 2})
		add(c14Cycle{Name: "cli/long-hold", Timing: "inflight", K: 2, Delays: fmt.Sprintf("prove.afterDecode=%d", o.Pick(8000, 35000)), LongHoldS: o.Pick(8, 35)})
		if o.Thorough() {
			for i := 0; i < 30; i++ {
				add(c14Cycle{Name: fmt.Sprintf("cli/inflight-%d", i), Timing: "inflight", K: 1 + i%4, Mix: i%2 == 0, Delays: fmt.Sprintf("%s=%d:%d,job.stopRequested=%d", stages[i%3], 300+100*(i%5), 200, (i%2)*50)})
			}
			add(c14Cycle{Name: "cli/after-completion", Timing: "after-completion", K: 2})
		}
		return out
	}
	add(c14Cycle{Name: "immediate/0", Timing: "immediate"})
	add(c14Cycle{Name: "immediate/1", Timing: "immediate"})
	add(c14Cycle{Name: "immediate/start-delayed-5ms", Timing: "immediate", Delays: "job.beforeStart=5"})
	add(c14Cycle{Name: "immediate/start-delayed-50ms", Timing: "immediate", Delays: "job.beforeStart=50"})
	add(c14Cycle{Name: "immediate/start-delayed-jitter", Timing: "immediate", Delays: "job.beforeStart=0:3"})
	add(c14Cycle{Name: "immediate/stop-delayed", Timing: "immediate", Delays: "job.stopRequested=50"})
	add(c14Cycle{Name: "ports-up/0", Timing: "ports-up"})
	add(c14Cycle{Name: "ports-up/stop-delayed", Timing: "ports-up", Delays: "job.stopRequested=50"})
	n := o.Pick(12, 200)
	for i := 0; i < n; i++ {
		add(c14Cycle{Name: fmt.Sprintf("inflight/%d", i), Timing: "inflight", K: []int{1, 2, 4, 1, 3}[i%5], Mix: i%3 == 1,
			Delays: fmt.Sprintf("%s=%d:%d,job.stopRequested=%d", stages[i%3], 150+50*(i%7), 150, (i%2)*50)})
	}
	for i := 0; i < o.Pick(2, 12); i++ { // accepted, but the handler has not read the body yet when the stop arrives
		add(c14Cycle{Name: fmt.Sprintf("inflight-before-body-read/%d", i), Timing: "inflight", K: 1 + i%3, Mix: i%2 == 1, Delays: fmt.Sprintf("prove.enter=%d:200,job.stopRequested=%d", 400+100*i, (i%2)*50)})
	}
	add(c14Cycle{Name: "after-completion/0", Timing: "after-completion", K: 2})
	add(c14Cycle{Name: "after-completion/1", Timing: "after-completion", K: 1, Delays: "job.stopRequested=50"})
	add(c14Cycle{Name: "long-hold", Timing: "inflight", K: 2, Delays: fmt.Sprintf("prove.afterDecode=%d", o.Pick(8000, 35000)), LongHoldS: o.Pick(8, 35)})
	for i := 0; i < o.Pick(6, 100); i++ { // rapid restarts on the same addresses
		add(c14Cycle{Name: fmt.Sprintf("rapid/%d", i), Timing: []string{"immediate", "ports-up"}[i%2], Delays: []string{"", "job.beforeStart=0:2", "job.stopRequested=0:5"}[i%3]})
	}
	return out
}

// ---- log protocol between worker and parent ------------------------------------------

type c14Event struct {
	Cycle   int            `json:"cycle"`
	Name    string         `json:"name"`
	Event   string         `json:"event"` // begin | step | violation | inconclusive | end
	Detail  string         `json:"detail,omitempty"`
	Data    map[string]any `json:"data,omitempty"`
	ElapsMs int64          `json:"elapsed_ms"`
}

// ---- worker (in-process server.Run cycles; a panic here ends only the worker) ----------

func c14Worker(args []string) {
	fs := flag.NewFlagSet("c14worker", flag.ExitOnError)
	logPath := fs.String("log", "", "event log")
	keysPath := fs.String("keys", "", "keys file")
	mode := fs.String("mode", "insertion", "mode")
	pAddr := fs.String("prover", "", "prover address")
	mAddr := fs.String("metrics", "", "metrics address")
	planPath := fs.String("plan", "", "cycle plan (json)")
	seed := fs.Int64("seed", 1, "seed")
	fs.Parse(args)
	lf, err := os.OpenFile(*logPath, os.O_APPEND|os.O_CREATE|os.O_WRONLY, 0o644)
	if err != nil {
		fmt.Fprintln(os.Stderr, err)
		os.Exit(3)
	}
	var lmu sync.Mutex
	t0 := time.Now()
	emit := func(e c14Event) {
		e.ElapsMs = time.Since(t0).Milliseconds()
		b, _ := json.Marshal(e)
		lmu.Lock()
		lf.Write(append(b, '\n'))
		lf.Sync()
		lmu.Unlock()
	}
	var plan []c14Cycle
	pb, _ := os.ReadFile(*planPath)
	json.Unmarshal(pb, &plan)
	ps, err := prover.ReadSystemFromFile(*keysPath)
	if err != nil {
		emit(c14Event{Event: "inconclusive", Detail: "worker cannot load keys: " + err.Error()})
		os.Exit(3)
	}
	ks := &keyset{mode: *mode, d: int(ps.TreeDepth), b: int(ps.BatchSize), ps: ps, path: *keysPath}
	cfg := server.Config{ProverAddress: *pAddr, MetricsAddress: *mAddr, Mode: *mode}
	for ci, cy := range plan {
		emit(c14Event{Cycle: ci, Name: cy.Name, Event: "begin", Data: map[string]any{"timing": cy.Timing, "k": cy.K, "delays": cy.Delays}})
		vio := func(what string, data map[string]any) {
			emit(c14Event{Cycle: ci, Name: cy.Name, Event: "violation", Detail: what, Data: data})
		}
		r := gen.RNG(*seed, "C14/"+cy.Name)
		evPath := fmt.Sprintf("%s.events.%d", *logPath, ci)
		configureHooks(evPath, cy.Delays, *seed)
		emit(c14Event{Cycle: ci, Name: cy.Name, Event: "step", Detail: "Run"})
		job := server.Run(&cfg, ps)
		type result struct {
			rq *request
			rs response
		}
		var results []result
		var rmu sync.Mutex
		var cw sync.WaitGroup
		launch := func(k int) {
			for i := 0; i < k; i++ {
				rq := validRequest(r, ks)
				if cy.Mix && i%2 == 1 {
					rq = invalidBatchRequest(r, ks)
				}
				cw.Add(1)
				go func() {
					defer cw.Done()
					rs := send(*pAddr, rq, 20*time.Minute)
					rmu.Lock()
					results = append(results, result{rq, rs})
					rmu.Unlock()
				}()
			}
		}
		portsUp := func() bool {
			deadline := time.Now().Add(60 * time.Second)
			for time.Now().Before(deadline) {
				c1, e1 := net.DialTimeout("tcp", *pAddr, 200*time.Millisecond)
				c2, e2 := net.DialTimeout("tcp", *mAddr, 200*time.Millisecond)
				if c1 != nil {
					c1.Close()
				}
				if c2 != nil {
					c2.Close()
				}
				if e1 == nil && e2 == nil {
					return true
				}
				time.Sleep(5 * time.Millisecond)
			}
			return false
		}
		skip := false
		switch cy.Timing {
		case "immediate":
		case "ports-up":
			if !portsUp() {
				emit(c14Event{Cycle: ci, Name: cy.Name, Event: "inconclusive", Detail: "ports did not come up within 60s"})
				skip = true
			}
		case "inflight", "after-completion":
			if !portsUp() {
				emit(c14Event{Cycle: ci, Name: cy.Name, Event: "inconclusive", Detail: "ports did not come up within 60s"})
				skip = true
				break
			}
			launch(cy.K)
			if cy.Timing == "after-completion" {
				cw.Wait()
			} else if !waitInFlight(*mAddr, cy.K, 60*time.Second) {
				emit(c14Event{Cycle: ci, Name: cy.Name, Event: "inconclusive", Detail: fmt.Sprintf("in-flight gauge never reached %d", cy.K)})
				skip = true
			} else {
				emit(c14Event{Cycle: ci, Name: cy.Name, Event: "step", Detail: fmt.Sprintf("in-flight confirmed: gauge == %d", cy.K)})
			}
		}
		_ = skip
		emit(c14Event{Cycle: ci, Name: cy.Name, Event: "step", Detail: "RequestStop"})
		stopAt := time.Now()
		job.RequestStop()
		awaited := make(chan struct{})
		go func() { job.AwaitStop(); close(awaited) }()
		wd := 120 * time.Second
		if cy.LongHoldS > 0 {
			wd += time.Duration(cy.LongHoldS) * time.Second * 3
		}
		select {
		case <-awaited:
		case <-time.After(wd):
			buf := make([]byte, 1<<20)
			n := runtime.Stack(buf, true)
			vio(fmt.Sprintf("AwaitStop did not return within %v of RequestStop (deadlock)", wd), map[string]any{"goroutines": truncate(string(buf[:n]), 20000)})
			emit(c14Event{Cycle: ci, Name: cy.Name, Event: "end"})
			lf.Close()
			os.Exit(4)
		}
		awaitMs := time.Since(stopAt).Milliseconds()
		emit(c14Event{Cycle: ci, Name: cy.Name, Event: "step", Detail: "AwaitStop returned", Data: map[string]any{"await_ms": awaitMs}})
		// both listeners must be closed by now: bind immediately
		for _, a := range []string{*pAddr, *mAddr} {
			l, err := net.Listen("tcp", a)
			if err != nil {
				vio(fmt.Sprintf("address %s cannot be bound right after AwaitStop returned: %v", a, err), map[string]any{"timing": cy.Timing, "delays": cy.Delays})
				// give the listener a moment so that the next cycle's Run does not panic on a leftover
				for i := 0; i < 200; i++ {
					if l2, e2 := net.Listen("tcp", a); e2 == nil {
						l2.Close()
						break
					}
					time.Sleep(10 * time.Millisecond)
				}
				continue
			}
			l.Close()
		}
		// every request that was in flight must have its complete response
		done := make(chan struct{})
		go func() { cw.Wait(); close(done) }()
		select {
		case <-done:
		case <-time.After(wd):
			vio("an in-flight client never got a response after the stop", nil)
		}
		rmu.Lock()
		for _, res := range results {
			if p := judgeResponse(ks, res.rq, res.rs); p != "" {
				vio(fmt.Sprintf("a request accepted before the stop (%s) did not receive its full response: %s", res.rq.class, p),
					map[string]any{"timing": cy.Timing, "delays": cy.Delays, "k": cy.K, "await_ms": awaitMs, "request_class": res.rq.class})
			}
		}
		nres := len(results)
		rmu.Unlock()
		// server-side order: once the outer job has finished shutting down (AwaitStop can return),
		// no prove handler may still be running
		if hooksCompiled {
			configureHooks("", "", *seed) // closes the event log of this cycle
			evs := readEvents(evPath)
			lastShutdown := -1
			for i, e := range evs {
				if e.name == "job.afterShutdown" {
					lastShutdown = i
				}
			}
			late := 0
			for i, e := range evs {
				if i > lastShutdown && lastShutdown >= 0 && strings.HasPrefix(e.name, "prove.") {
					late++
				}
			}
			if late > 0 {
				vio(fmt.Sprintf("%d prove-handler events were logged after the last job finished shutting down: waiting-for-stop can return while an accepted request is still being processed", late),
					map[string]any{"timing": cy.Timing, "delays": cy.Delays, "events": len(evs)})
			}
			os.Remove(evPath)
		}
		emit(c14Event{Cycle: ci, Name: cy.Name, Event: "end", Data: map[string]any{"responses": nres, "await_ms": awaitMs, "skipped_timing": skip}})
	}
	lf.Close()
}

// ---- parent ---------------------------------------------------------------------------

func runC14(o *cli.Opts, run *evid.Run) {
	run.Rule("one case = one start/stop cycle: (A) in a worker process, server.Run -> [stop timing] -> RequestStop -> AwaitStop -> immediate net.Listen on both addresses, repeated on the SAME two addresses; timings: immediately after Run (listeners possibly not up; start delayed by hook 0/5/50 ms), right after both ports answer, with k in {1,2,3,4} requests confirmed in flight through the in-flight gauge and held at a handler stage by hook delays (afterRead/afterDecode/afterProve), after completion, a long hold (request still in flight many seconds after the stop), rapid restarts; " +
		"(B) the real CLI: `gnark-mbu start`, same in-flight timings, SIGINT, exit status, re-bind, second start on the same addresses. Oracle: every in-flight client receives its specified response (200 + verifying proof / its 400), AwaitStop returns (deadlock watchdog >= 120 s, goroutine dump as witness), addresses bind immediately, exit status 0; non-trivial = distinct cycle plan entry")
	run.Assume("SIGINT is sent only once the ports answer (before the handler is installed Go's default disposition applies; start-up races are exercised through the library API)", "goroutines still winding down after AwaitStop are not asserted on")
	self, err := os.Executable()
	if err != nil {
		run.Violate("C14/self", err.Error(), nil)
		return
	}
	ks, err := makeKeys(o, "insertion", 3, 2)
	if err != nil {
		run.Violate("C14/setup", "setup failed: "+err.Error(), nil)
		return
	}
	run.Stage("setup")
	var wg sync.WaitGroup
	wg.Add(2)
	go func() { defer wg.Done(); c14InProcess(o, run, self, ks) }()
	go func() { defer wg.Done(); c14CLI(o, run, ks) }()
	wg.Wait()
	run.Require("in-process cycles completed", run.GetInt("inproc_cycles_completed"), 20)
	run.Require("cycles with requests confirmed in flight at the stop", run.GetInt("inflight_confirmed"), 8)
	run.Require("CLI cycles completed", run.GetInt("cli_cycles_completed"), 3)
	run.Require("responses checked across a stop", run.GetInt("responses_across_stop"), 15)
}

func c14InProcess(o *cli.Opts, run *evid.Run, self string, ks *keyset) {
	plan := c14Plan(o, false)
	ports := proc.FreePorts(2)
	pAddr, mAddr := fmt.Sprintf("127.0.0.1:%d", ports[0]), fmt.Sprintf("127.0.0.1:%d", ports[1])
	next := 0
	for attempt := 0; next < len(plan) && attempt < 6; attempt++ {
		rest := plan[next:]
		planPath := filepath.Join(o.Scratch, fmt.Sprintf("c14-plan-%d.json", attempt))
		logPath := filepath.Join(o.Scratch, fmt.Sprintf("c14-worker-%d.log", attempt))
		pb, _ := json.Marshal(rest)
		os.WriteFile(planPath, pb, 0o644)
		errPath := filepath.Join(o.Scratch, fmt.Sprintf("c14-worker-%d.stderr", attempt))
		ef, _ := os.Create(errPath)
		cmd := exec.Command(self, "c14worker", "-log", logPath, "-keys", ks.path, "-mode", ks.mode, "-prover", pAddr, "-metrics", mAddr, "-plan", planPath, "-seed", fmt.Sprint(o.Seed))
		cmd.Stderr, cmd.Stdout = ef, ef
		werr := cmd.Run()
		ef.Close()
		// interpret the worker's log
		lastBegun, lastEnded := -1, -1
		lf, _ := os.Open(logPath)
		if lf != nil {
			sc := bufio.NewScanner(lf)
			sc.Buffer(make([]byte, 1<<20), 1<<24)
			cycleVio := map[int]bool{}
			var cur c14Event
			for sc.Scan() {
				var e c14Event
				if json.Unmarshal(sc.Bytes(), &e) != nil {
					continue
				}
				gi := next + e.Cycle
				key := fmt.Sprintf("C14/inproc/%s", e.Name)
				switch e.Event {
				case "begin":
					lastBegun = e.Cycle
					cur = e
				case "violation":
					cycleVio[e.Cycle] = true
					run.Violate(key, e.Detail, map[string]any{"cycle": gi, "plan": rest[e.Cycle], "data": e.Data})
				case "inconclusive":
					run.Inconclusive(key + ": " + e.Detail)
				case "step":
					if strings.HasPrefix(e.Detail, "in-flight confirmed") {
						run.Add("inflight_confirmed", 1)
					}
				case "end":
					lastEnded = e.Cycle
					run.Add("inproc_cycles_completed", 1)
					if n, ok := e.Data["responses"].(float64); ok {
						run.Add("responses_across_stop", int(n))
					}
					run.Case("inproc/"+rest[e.Cycle].Timing, true, key, !cycleVio[e.Cycle], map[string]any{"cycle": rest[e.Cycle], "result": e.Data, "begin": cur.Data})
				}
			}
			lf.Close()
		}
		if werr == nil {
			next = len(plan)
			break
		}
		if ee, ok := werr.(*exec.ExitError); ok && ee.ExitCode() == 4 {
			// the worker reported a deadlock (AwaitStop never returned) and gave up: the verdict is in, and every
			// further cycle of that kind would cost a full watchdog period
			break
		}
		// the worker died: a panic (e.g. a listener that could not bind, a channel closed twice) or a deadlock exit
		stderr, _ := os.ReadFile(errPath)
		name := "?"
		if lastBegun >= 0 && lastBegun < len(rest) {
			name = rest[lastBegun].Name
		}
		if lastBegun > lastEnded && lastBegun >= 0 {
			run.Violate("C14/inproc/"+name+"/crash", fmt.Sprintf("the process running server.Run/RequestStop/AwaitStop died during cycle %q: %v", name, werr),
				map[string]any{"plan": rest[lastBegun], "stderr_tail": tailStr(string(stderr), 4000)})
			next += lastBegun + 1
		} else {
			run.Inconclusive(fmt.Sprintf("C14 worker exited abnormally outside a cycle: %v: %s", werr, tailStr(string(stderr), 600)))
			next += lastEnded + 1
		}
		// fresh addresses for the restarted worker
		ports = proc.FreePorts(2)
		pAddr, mAddr = fmt.Sprintf("127.0.0.1:%d", ports[0]), fmt.Sprintf("127.0.0.1:%d", ports[1])
	}
	run.Stage("in-process")
}

func c14CLI(o *cli.Opts, run *evid.Run, ks *keyset) {
	// thorough: the CLI cycles run on the -race build and its log is checked afterwards
	bin, err := proc.BuildBinary(o.Out, o.Scratch, o.Repo, o.Thorough())
	if err != nil {
		run.Violate("C14/build", err.Error(), nil)
		return
	}
	racePrefix := filepath.Join(o.Scratch, "race-c14")
	defer func() {
		if o.Thorough() {
			if total, dedup := countRaces(racePrefix); total > 0 {
				run.Violate("C14/cli/data-race", fmt.Sprintf("the race detector reported %d data race(s) during start/stop cycles: %s", total, strings.Join(dedup, "; ")), nil)
			}
		}
	}()
	ports := proc.FreePorts(2)
	pAddr, mAddr := fmt.Sprintf("127.0.0.1:%d", ports[0]), fmt.Sprintf("127.0.0.1:%d", ports[1])
	for ci, cy := range c14Plan(o, true) {
		key := "C14/" + cy.Name
		if !run.Wants(key) {
			continue
		}
		r := gen.RNG(o.Seed, key)
		env := []string{"VERIF_DELAYS=" + cy.Delays, fmt.Sprintf("VERIF_SEED=%d", o.Seed), "GORACE=halt_on_error=0 log_path=" + racePrefix}
		srv, err := proc.StartServerOn(bin, ks.mode, ks.path, o.Scratch, fmt.Sprintf("c14-cli-%d", ci), env, pAddr, mAddr)
		if err != nil {
			// the same addresses as the previous cycle: a failure to come up is itself a finding if the previous server left them bound
			run.Violate(key+"/start", "`gnark-mbu start` on the addresses of the previous, stopped instance does not come up: "+err.Error(), nil)
			ports = proc.FreePorts(2)
			pAddr, mAddr = fmt.Sprintf("127.0.0.1:%d", ports[0]), fmt.Sprintf("127.0.0.1:%d", ports[1])
			continue
		}
		type result struct {
			rq *request
			rs response
		}
		var results []result
		var rmu sync.Mutex
		var cw sync.WaitGroup
		for i := 0; i < cy.K; i++ {
			rq := validRequest(r, ks)
			if cy.Mix && i%2 == 1 {
				rq = invalidBatchRequest(r, ks)
			}
			cw.Add(1)
			go func() {
				defer cw.Done()
				rs := send(pAddr, rq, 20*time.Minute)
				rmu.Lock()
				results = append(results, result{rq, rs})
				rmu.Unlock()
			}()
		}
		ok := true
		if cy.Timing == "after-completion" {
			cw.Wait()
		} else if cy.K > 0 {
			if !waitInFlight(mAddr, cy.K, 60*time.Second) {
				run.Inconclusive(key + ": in-flight gauge never reached the number of requests sent")
				ok = false
			} else {
				run.Add("inflight_confirmed", 1)
			}
		}
		// a scrape whose request head is only partly on the wire when the stop arrives; it is completed right after
		var scrapeConn net.Conn
		var scrapeT0 time.Time
		if cy.Scrape {
			if c, err := net.DialTimeout("tcp", mAddr, 5*time.Second); err == nil {
				scrapeConn, scrapeT0 = c, time.Now()
				fmt.Fprintf(c, "GET /metrics HTTP/1.1\r\nHost: %s\r\nConnection: close\r\n", mAddr)
			}
		}
		stopAt := time.Now()
		srv.Signal(syscall.SIGINT)
		if scrapeConn != nil {
			time.Sleep(300 * time.Millisecond)
			scrapeConn.SetDeadline(time.Now().Add(60 * time.Second))
			_, werr := scrapeConn.Write([]byte("\r\n"))
			resp, rerr := http.ReadResponse(bufio.NewReader(scrapeConn), nil)
			var body []byte
			if rerr == nil {
				body, _ = io.ReadAll(resp.Body)
				resp.Body.Close()
			}
			elapsed := time.Since(scrapeT0)
			scrapeConn.Close()
			switch {
			case rerr == nil && resp.StatusCode == 200 && bytes.Contains(body, []byte("go_goroutines")):
				run.Add("scrapes_completed_across_stop", 1)
			case elapsed > 4*time.Second:
				// net/http may legitimately drop a connection whose request head is still incomplete 5 s after it was opened
				run.Inconclusive(key + ": the in-flight scrape took longer than 4 s to set up and complete on this machine")
			default:
				run.Violate(key+"/scrape", fmt.Sprintf("a /metrics request that was in flight (request head partly sent) when SIGINT arrived did not receive its full response: write err=%v, read err=%v", werr, rerr), nil)
			}
		}
		for i := 0; i < cy.Resignal; i++ { // an impatient operator: the stop is requested again while the drain is in progress
			time.Sleep(150 * time.Millisecond)
			if srv.Signal(syscall.SIGINT) == nil {
				run.Add("repeated_sigints_delivered", 1)
			}
		}
		wd := 120*time.Second + time.Duration(cy.LongHoldS)*3*time.Second
		exit, exited := srv.Wait(wd)
		exitMs := time.Since(stopAt).Milliseconds()
		vio := false
		if !exited {
			vio = true
			srv.Kill()
			run.Violate(key+"/hang", fmt.Sprintf("the server did not exit within %v of SIGINT", wd), map[string]any{"stderr_tail": tailStr(srv.Stderr(), 6000)})
		} else {
			if exit != 0 {
				vio = true
				run.Violate(key+"/exit", fmt.Sprintf("the server exited with status %d after SIGINT (expected 0)", exit), map[string]any{"stderr_tail": tailStr(srv.Stderr(), 3000), "plan": cy})
			}
			for _, a := range []string{pAddr, mAddr} {
				if err := proc.CanBind(a); err != nil {
					vio = true
					run.Violate(key+"/rebind", fmt.Sprintf("address %s cannot be bound right after the process exited: %v", a, err), nil)
				}
			}
		}
		done := make(chan struct{})
		go func() { cw.Wait(); close(done) }()
		select {
		case <-done:
		case <-time.After(60 * time.Second):
			vio = true
			run.Violate(key+"/client-hang", "an in-flight client never got a response although the server has exited", nil)
		}
		rmu.Lock()
		for _, res := range results {
			if p := judgeResponse(ks, res.rq, res.rs); p != "" {
				vio = true
				run.Violate(key+"/response", fmt.Sprintf("a request accepted before SIGINT (%s) did not receive its full response: %s", res.rq.class, p), map[string]any{"plan": cy, "exit_after_ms": exitMs})
			}
		}
		run.Add("responses_across_stop", len(results))
		rmu.Unlock()
		if ok {
			run.Add("cli_cycles_completed", 1)
		}
		run.Case("cli/"+cy.Timing, true, key, !vio, map[string]any{"cycle": cy, "exit_status": exit, "exit_after_ms": exitMs})
	}
	run.Stage("cli")
}
