package main

// C20, successive server instances inside ONE process (what the repository's own integration TestMain does:
// insertion server, stop, deletion server). Every instance's metrics endpoint must account for the responses that
// instance sent: the difference between a scrape taken right after the instance came up and a scrape taken after
// its requests completed must equal the client's tally, and the in-flight gauge must be present and read zero.
// The oracle is a difference, so it holds whether totals are kept per instance or accumulated over the process.

import (
	"bufio"
	"encoding/json"
	"flag"
	"fmt"
	"net"
	"os"
	"os/exec"
	"path/filepath"
	"strings"
	"sync"
	"time"

	"worldcoin/gnark-mbu/prover"
	"worldcoin/gnark-mbu/server"

	"verifmon/internal/cli"
	"verifmon/internal/evid"
	"verifmon/internal/gen"
	"verifmon/internal/proc"
	"verifmon/internal/sysutil"
)

type c20InstEvent struct {
	Instance int            `json:"instance"`
	Event    string         `json:"event"` // begin | result | inconclusive | end
	Detail   string         `json:"detail,omitempty"`
	Sent     map[string]int `json:"sent,omitempty"`
	Delta    map[string]int `json:"delta,omitempty"`
	Gauge    int            `json:"gauge"`
	GaugeOK  bool           `json:"gauge_present"`
	Ops      int            `json:"ops"`
}

func c20Worker(args []string) {
	fs := flag.NewFlagSet("c20worker", flag.ExitOnError)
	logPath := fs.String("log", "", "event log")
	keysPath := fs.String("keys", "", "keys file")
	mode := fs.String("mode", "insertion", "mode")
	nInst := fs.Int("n", 3, "number of successive instances")
	seed := fs.Int64("seed", 1, "seed")
	fs.Parse(args)
	lf, err := os.OpenFile(*logPath, os.O_APPEND|os.O_CREATE|os.O_WRONLY, 0o644)
	if err != nil {
		os.Exit(3)
	}
	emit := func(e c20InstEvent) {
		b, _ := json.Marshal(e)
		lf.Write(append(b, '\n'))
		lf.Sync()
	}
	ps, err := prover.ReadSystemFromFile(*keysPath)
	if err != nil {
		emit(c20InstEvent{Event: "inconclusive", Detail: "worker cannot load keys: " + err.Error()})
		os.Exit(3)
	}
	ks := &keyset{mode: *mode, d: int(ps.TreeDepth), b: int(ps.BatchSize), ps: ps, path: *keysPath}
	for inst := 0; inst < *nInst; inst++ {
		// fresh addresses chosen right before the instance starts (server.Run panics when it cannot bind, and on a
		// busy machine a port reserved long before may have been taken by another process)
		ports := proc.FreePorts(2)
		pAddr, mAddr := fmt.Sprintf("127.0.0.1:%d", ports[0]), fmt.Sprintf("127.0.0.1:%d", ports[1])
		emit(c20InstEvent{Instance: inst, Event: "begin", Detail: pAddr + " " + mAddr})
		r := gen.RNG(*seed, fmt.Sprint("C20/instances/", inst))
		cfg := server.Config{ProverAddress: pAddr, MetricsAddress: mAddr, Mode: *mode}
		job := server.Run(&cfg, ps)
		up := false
		for i := 0; i < 6000 && !up; i++ {
			c1, e1 := net.DialTimeout("tcp", pAddr, 200*time.Millisecond)
			c2, e2 := net.DialTimeout("tcp", mAddr, 200*time.Millisecond)
			if c1 != nil {
				c1.Close()
			}
			if c2 != nil {
				c2.Close()
			}
			up = e1 == nil && e2 == nil
			if !up {
				time.Sleep(10 * time.Millisecond)
			}
		}
		if !up {
			emit(c20InstEvent{Instance: inst, Event: "inconclusive", Detail: "ports did not come up"})
			job.RequestStop()
			job.AwaitStop()
			continue
		}
		before := scrapeMetrics(mAddr)
		sent := map[string]int{}
		var mu sync.Mutex
		ops := 0
		do := func(rq *request) {
			rs := send(pAddr, rq, 10*time.Minute)
			mu.Lock()
			ops++
			if rs.err == nil {
				sent[strings.ToLower(rq.method)+"/"+fmt.Sprint(rs.status)]++
			}
			mu.Unlock()
		}
		// sequential mix, then a concurrent burst
		for i := 0; i < 6+inst; i++ {
			switch i % 4 {
			case 0:
				do(malformedRequest(r, ks))
			case 1:
				do(methodRequest(r, ks))
			case 2:
				do(validRequest(r, ks))
			case 3:
				do(invalidBatchRequest(r, ks))
			}
		}
		var wg sync.WaitGroup
		for i := 0; i < 8; i++ {
			rq := malformedRequest(r, ks)
			if i%3 == 1 {
				rq = methodRequest(r, ks)
			} else if i == 5 {
				rq = validRequest(r, ks)
			}
			wg.Add(1)
			go func() { defer wg.Done(); do(rq) }()
		}
		wg.Wait()
		var after scrape
		for try := 0; try < 6; try++ { // the gauge is decremented just after the response is flushed
			after = scrapeMetrics(mAddr)
			if after.err != nil || after.gauge == 0 {
				break
			}
			time.Sleep(50 * time.Millisecond)
		}
		ev := c20InstEvent{Instance: inst, Event: "result", Sent: sent, Delta: map[string]int{}, Ops: ops}
		if before.err != nil || after.err != nil {
			ev.Event = "result"
			ev.Detail = fmt.Sprintf("scrape failed: before=%v after=%v", before.err, after.err)
		} else {
			for k, v := range after.totals {
				if d := v - before.totals[k]; d != 0 {
					ev.Delta[k] = d
				}
			}
			ev.Gauge = after.gauge
			ev.GaugeOK = after.gauge >= 0
		}
		emit(ev)
		job.RequestStop()
		done := make(chan struct{})
		go func() { job.AwaitStop(); close(done) }()
		select {
		case <-done:
		case <-time.After(3 * time.Minute):
			emit(c20InstEvent{Instance: inst, Event: "inconclusive", Detail: "AwaitStop did not return (decided by C14)"})
			lf.Close()
			os.Exit(4)
		}
		emit(c20InstEvent{Instance: inst, Event: "end"})
	}
	lf.Close()
}

func c20Instances(o *cli.Opts, run *evid.Run, mode string) {
	key := "C20/" + mode + "/instances"
	if !run.Wants(key) {
		return
	}
	self, err := os.Executable()
	if err != nil {
		run.Inconclusive(key + ": " + err.Error())
		return
	}
	// own keys file (the per-mode histories write theirs at the same time)
	ps, err := sysutil.Setup(mode, 2, 1)
	if err != nil {
		run.Violate(key+"/setup", "setup failed: "+err.Error(), nil)
		return
	}
	ks := &keyset{mode, 2, 1, ps, filepath.Join(o.Scratch, "keys-instances-"+mode+".ps")}
	if f, err := os.Create(ks.path); err != nil {
		run.Inconclusive(key + ": " + err.Error())
		return
	} else {
		_, werr := ps.WriteRawTo(f)
		f.Close()
		if werr != nil {
			run.Inconclusive(key + ": " + werr.Error())
			return
		}
	}
	n := o.Pick(3, 8)
	var werr error
	var errPath string
	begun, ended := -1, -1
	for attempt := 0; attempt < 3; attempt++ {
		logPath := filepath.Join(o.Scratch, fmt.Sprintf("c20-instances-%s-%d.log", mode, attempt))
		errPath = logPath + ".stderr"
		ef, _ := os.Create(errPath)
		cmd := exec.Command(self, "c20worker", "-log", logPath, "-keys", ks.path, "-mode", mode, "-n", fmt.Sprint(n), "-seed", fmt.Sprint(o.Seed))
		cmd.Stdout, cmd.Stderr = ef, ef
		werr = cmd.Run()
		ef.Close()
		stderr, _ := os.ReadFile(errPath)
		if werr != nil && strings.Contains(string(stderr), "address already in use") && attempt < 2 {
			// another process took one of the two fresh ports between their selection and the bind: nothing was
			// observed about the code under test; run the stage again
			fmt.Fprintf(os.Stderr, "C20 instances (%s): a fresh port was taken by another process, retrying\n", mode)
			continue
		}
		lf, err := os.Open(logPath)
		if err != nil {
			run.Inconclusive(key + ": worker wrote no log: " + fmt.Sprint(werr))
			return
		}
		begun, ended = c20ReadInstances(run, lf, key, mode)
		lf.Close()
		break
	}
	if begun != ended {
		stderr, _ := os.ReadFile(errPath)
		if strings.Contains(string(stderr), "address already in use") {
			run.Inconclusive(fmt.Sprintf("%s: fresh ports were taken by other processes three times in a row", key))
		} else if strings.Contains(string(stderr), "panic:") {
			run.Violate(fmt.Sprintf("%s/%d/crash", key, begun), fmt.Sprintf("starting server instance %d in a process that already ran %d instance(s) crashed the process: %s", begun, begun, tailStr(string(stderr), 1500)), nil)
		} else {
			run.Inconclusive(fmt.Sprintf("%s: worker ended inside instance %d: %v: %s", key, begun, werr, tailStr(string(stderr), 400)))
		}
	}
}

// c20ReadInstances interprets one worker log; returns the last instance begun and the last one ended.
func c20ReadInstances(run *evid.Run, lf *os.File, key, mode string) (int, int) {
	sc := bufio.NewScanner(lf)
	sc.Buffer(make([]byte, 1<<20), 1<<24)
	begun, ended := -1, -1
	for sc.Scan() {
		var e c20InstEvent
		if json.Unmarshal(sc.Bytes(), &e) != nil {
			continue
		}
		ikey := fmt.Sprintf("%s/%d", key, e.Instance)
		switch e.Event {
		case "begin":
			begun = e.Instance
		case "end":
			ended = e.Instance
		case "inconclusive":
			run.Inconclusive(ikey + ": " + e.Detail)
		case "result":
			ok := true
			if e.Detail != "" {
				ok = false
				run.Violate(ikey+"/scrape", fmt.Sprintf("server instance %d started in a process that already ran %d instance(s): metrics endpoint unusable: %s", e.Instance, e.Instance, e.Detail), nil)
			} else {
				var diffs []string
				for k, v := range e.Sent {
					if e.Delta[k] != v {
						diffs = append(diffs, fmt.Sprintf("%s: sent %d, metrics grew by %d", k, v, e.Delta[k]))
					}
				}
				for k, v := range e.Delta {
					if _, okk := e.Sent[k]; !okk {
						diffs = append(diffs, fmt.Sprintf("%s: sent 0, metrics grew by %d", k, v))
					}
				}
				if len(diffs) > 0 {
					ok = false
					run.Violate(ikey+"/conservation", fmt.Sprintf("server instance %d started in a process that already ran %d instance(s): request totals do not account for the responses this instance sent: %s", e.Instance, e.Instance, strings.Join(diffs, "; ")),
						map[string]any{"sent": e.Sent, "metrics_delta": e.Delta})
				}
				if !e.GaugeOK {
					ok = false
					run.Violate(ikey+"/gauge", fmt.Sprintf("server instance %d (process already ran %d instance(s)): the in-flight gauge for /prove is missing from the metrics endpoint", e.Instance, e.Instance), nil)
				} else if e.Gauge != 0 {
					ok = false
					run.Violate(ikey+"/gauge", fmt.Sprintf("server instance %d: in-flight gauge reads %d after all its requests completed", e.Instance, e.Gauge), nil)
				}
			}
			run.Add("instance_rounds", 1)
			run.Add("client_ops", e.Ops)
			run.Case(mode+"/instance-in-used-process", true, ikey, ok, map[string]any{"instance": e.Instance, "sent": e.Sent, "metrics_delta": e.Delta, "gauge": e.Gauge})
		}
	}
	return begun, ended
}
