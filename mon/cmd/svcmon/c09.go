package main

import (
	"fmt"
	"math/rand"
	"sort"
	"sync"
	"time"

	"verifmon/internal/cli"
	"verifmon/internal/evid"
	"verifmon/internal/gen"
	"verifmon/internal/proc"
)

// hangWatchdog: "hangs" are in the property, so an unanswered request becomes a
// violation - but only after >= 40x the median latency seen in this run and
// never less than 120 s.
func hangWatchdog(lat []time.Duration) time.Duration {
	w := 120 * time.Second
	if len(lat) > 0 {
		s := append([]time.Duration{}, lat...)
		sort.Slice(s, func(i, j int) bool { return s[i] < s[j] })
		if m := 40 * s[len(s)/2]; m > w {
			w = m
		}
	}
	return w
}

func genRequest(r *rand.Rand, ks *keyset, validShare int) *request {
	switch k := r.Intn(100); {
	case k < validShare:
		switch r.Intn(8) {
		case 0:
			return extraFieldRequest(r, ks)
		case 1:
			return paddedRequest(r, ks)
		case 2: // the same kinds of document sent with chunked transfer encoding (no Content-Length)
			rq := validRequest(r, ks)
			rq.raw = "chunked"
			rq.class = "valid/chunked"
			return rq
		}
		return validRequest(r, ks)
	case k < validShare+2:
		return lenientRequest(r, ks)
	case k < 30:
		return methodRequest(r, ks)
	case k < 62:
		rq := malformedRequest(r, ks)
		if rq.raw == "" && len(rq.body) < 100000 && r.Intn(6) == 0 {
			rq.raw = "chunked"
		}
		return rq
	case k < 78:
		return shapeRequest(r, ks)
	case k < 84:
		return wrongHashRequest(r, ks)
	default:
		return invalidBatchRequest(r, ks)
	}
}

func runC09(o *cli.Opts, run *evid.Run) {
	run.Rule("one case = one HTTP request to /prove of a real `gnark-mbu start` child (one long history per mode on one server instance): methods other than POST, bodies that are not a parameter document (random bytes, literals, truncated/ill-typed JSON, non-numbers, bad indices, missing fields, deep nesting, 1 MB garbage, body-read failures on the wire), well-formed documents with wrong dimensions (each array +-1, empty, 10^4 entries) or invalid batches (every invalid class of C01/C02, wrong hash), valid batches in four number styles; " +
		"oracle = documented status + JSON code per class, 200 bodies verified as Groth16 proofs against the request's own hash with the verifying key held by the monitor; after every request the server must still answer a probe and show no crash mark; non-trivial = distinct request bytes")
	run.Assume("error *messages* are not compared", "documents whose arrays are missing, and values outside [0,r), may legitimately get either documented outcome (classes underspecified/*, lenient/*)")
	bin, err := proc.BuildBinary(o.Out, o.Scratch, o.Repo, false)
	if err != nil {
		run.Violate("C09/build", err.Error(), nil)
		return
	}
	modes := []string{"insertion", "deletion"}
	var wg sync.WaitGroup
	for _, mode := range modes {
		mode := mode
		wg.Add(1)
		go func() {
			defer wg.Done()
			c09Mode(o, run, bin, mode)
		}()
	}
	wg.Wait()
	run.Require("valid requests answered 200 with a verifying proof", run.ClassTally("insertion/valid").Accepted+run.ClassTally("deletion/valid").Accepted, 8)
	run.Require("requests", run.GetInt("requests"), 300)
	run.Require("body-read-failure requests", run.GetInt("raw_requests"), 4)
	run.Require("liveness probes answered", run.GetInt("probes_answered"), 300)
}

func c09Mode(o *cli.Opts, run *evid.Run, bin, mode string) {
	key := "C09/" + mode
	ks, err := makeKeys(o, mode, 3, 2)
	if err != nil {
		run.Violate(key+"/setup", "setup failed: "+err.Error(), nil)
		return
	}
	// small hook delays between read, decode and prove keep several requests inside the handler at once
	env := []string{"VERIF_DELAYS=prove.afterRead=2:6,prove.afterDecode=0:4", fmt.Sprintf("VERIF_SEED=%d", o.Seed)}
	srv, err := startServer(bin, ks, o, "c09-"+mode, env)
	if err != nil {
		run.Inconclusive(key + ": server did not start: " + err.Error())
		srv2, err2 := startServer(bin, ks, o, "c09-"+mode+"-retry", env)
		if err2 != nil {
			run.Violate(key+"/start", "`gnark-mbu start` does not come up with a valid keys file: "+err2.Error(), nil)
			return
		}
		srv = srv2
	}
	defer srv.Kill()
	run.Stage(mode + "/server-up")
	n := o.Pick(700, 6000)
	validShare := 4
	var lat []time.Duration
	var latMu sync.Mutex
	var dead bool
	noAnswer := 0
	one := func(i int, rq *request) {
		k := fmt.Sprintf("%s/%d/%s", key, i, rq.class)
		latMu.Lock()
		wd := hangWatchdog(lat)
		isDead := dead
		latMu.Unlock()
		if isDead {
			return
		}
		rs := send(srv.ProverAddr, rq, wd)
		latMu.Lock()
		lat = append(lat, time.Duration(rs.ret-rs.call))
		latMu.Unlock()
		run.Add("requests", 1)
		if rq.raw != "" {
			run.Add("raw_requests", 1)
		}
		problem := judgeResponse(ks, rq, rs)
		if rs.err != nil {
			// a request that got no answer: after a few of them the history stops (every further request would
			// wait for the hang watchdog again); the violations already recorded are the verdict
			latMu.Lock()
			noAnswer++
			if noAnswer >= 3 {
				dead = true
			}
			latMu.Unlock()
		}
		sample := map[string]any{"mode": mode, "class": rq.class, "method": rq.method, "raw": rq.raw, "expected": rq.expect, "status": rs.status, "body_prefix": truncate(string(rq.body), 200), "response_prefix": truncate(string(rs.body), 160)}
		if problem != "" {
			w := map[string]any{"request_body": truncate(string(rq.body), 4000), "method": rq.method, "raw": rq.raw, "response_status": rs.status, "response_body": truncate(string(rs.body), 600)}
			if rs.err != nil {
				w["server_stderr_tail"] = truncate(tailStr(srv.Stderr(), 1500), 1500)
			}
			run.Violate(k, fmt.Sprintf("%s request (%s): %s", mode, rq.class, problem), w)
		}
		cls := rq.class
		if i := indexByte(cls, '/'); i > 0 && cls[:i] != "method" {
			cls = cls[:i]
		}
		run.Case(mode+"/"+cls, true, string(rq.method)+"\x00"+rq.raw+"\x00"+string(rq.body), problem == "" && rs.status == 200, sample)
		// the server answers subsequent requests normally
		probe := send(srv.ProverAddr, newReq("probe", "GET", nil, expect405, nil), wd)
		if probe.err != nil || probe.status != 405 {
			run.Violate(k+"/probe", fmt.Sprintf("after a %s request the server no longer answers normally (probe: status %d err %v)", rq.class, probe.status, probe.err), map[string]any{"request_body": truncate(string(rq.body), 4000), "server_stderr_tail": tailStr(srv.Stderr(), 1500)})
			if srv.Exited() {
				latMu.Lock()
				dead = true
				latMu.Unlock()
			}
		} else {
			run.Add("probes_answered", 1)
		}
	}
	pendingUpload(o, run, ks, srv, key+"/upload-pending")
	abandonedClients(o, run, ks, srv, key+"/abandoned-clients", 2)
	// two requests that take long from the server's point of view (the body arrives in two segments 33 s - thorough
	// 130 s - apart, as over a slow link or with a large production document), in flight during the whole history:
	// a valid batch must still get its proof, an unsatisfiable one its proving_error
	var slow sync.WaitGroup
	for si, mk := range []func(*rand.Rand, *keyset) *request{validRequest, invalidBatchRequest} {
		sk := fmt.Sprintf("%s/slow-upload/%d", key, si)
		if !run.Wants(sk) {
			continue
		}
		rq := mk(gen.RNG(o.Seed, sk), ks)
		rq.raw, rq.pause = "slow-body", o.Pick(33000, 130000)
		rq.class += "/slow-upload"
		slow.Add(1)
		go func() {
			defer slow.Done()
			rs := send(srv.ProverAddr, rq, 15*time.Minute)
			if p := judgeResponse(ks, rq, rs); p != "" {
				run.Violate(sk, fmt.Sprintf("%s request (%s, body delivered over %d s): %s", mode, rq.class, rq.pause/1000, p), map[string]any{"request_body": truncate(string(rq.body), 2000), "response_status": rs.status, "response_body": truncate(string(rs.body), 400)})
			}
			run.Add("slow_uploads", 1)
			run.Case(mode+"/slow-upload", true, string(rq.body), rs.status == 200, map[string]any{"class": rq.class, "pause_ms": rq.pause, "status": rs.status})
		}()
	}
	defer slow.Wait()
	// the PRNG history, 6 clients at a time
	cli.ForEach(n, 6, func(i int) {
		rk := fmt.Sprintf("%s/%d", key, i)
		if !run.Wants(rk) {
			return
		}
		r := gen.RNG(o.Seed, rk)
		one(i, genRequest(r, ks, validShare))
	})
	run.Stage(mode + "/history")
	if srv.Exited() {
		run.Violate(key+"/died", "the server process exited during the request history", map[string]any{"stderr_tail": tailStr(srv.Stderr(), 3000)})
		return
	}
	if marks := srv.CrashMarks(); len(marks) > 0 {
		run.Violate(key+"/crash-marks", fmt.Sprintf("server output carries crash marks %v", marks), map[string]any{"stderr_tail": tailStr(srv.Stderr(), 3000)})
	}
	// two very large bodies (well above any plausible production document)
	for hi, valid := range []bool{true, false} {
		hk := fmt.Sprintf("%s/huge/%d", key, hi)
		if run.Wants(hk) && !srv.Exited() {
			one(n+hi, hugeRequest(gen.RNG(o.Seed, hk), ks, valid))
		}
	}
	// the history ends with a valid request that must still be proved
	last := validRequest(gen.RNG(o.Seed, key+"/last"), ks)
	rs := send(srv.ProverAddr, last, 10*time.Minute)
	if p := judgeResponse(ks, last, rs); p != "" {
		run.Violate(key+"/last-valid", "after the hostile history a valid request is not served: "+p, nil)
	}
	run.Case(mode+"/valid", true, string(last.body), rs.status == 200, nil)
}

func tailStr(s string, n int) string {
	if len(s) > n {
		return s[len(s)-n:]
	}
	return s
}

func indexByte(s string, c byte) int {
	for i := 0; i < len(s); i++ {
		if s[i] == c {
			return i
		}
	}
	return -1
}
