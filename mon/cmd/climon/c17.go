package main

import (
	"crypto/sha256"
	"encoding/hex"
	"fmt"
	"os"
	"path/filepath"
	"regexp"
	"sort"
	"strings"
	"time"

	"worldcoin/gnark-mbu/prover"

	"verifmon/internal/cli"
	"verifmon/internal/evid"
	"verifmon/internal/proc"
)

var defRe = regexp.MustCompile(`(?m)^def ([A-Za-z0-9_]+)`)

// splitDefs cuts a Lean model into its definitions (name -> text).
func splitDefs(text string) (map[string]string, []string) {
	locs := defRe.FindAllStringSubmatchIndex(text, -1)
	out := map[string]string{}
	var order []string
	for i, l := range locs {
		end := len(text)
		if i+1 < len(locs) {
			end = locs[i+1][0]
		}
		name := text[l[2]:l[3]]
		out[name] = text[l[0]:end]
		order = append(order, name)
	}
	return out, order
}

func sha(s string) string {
	h := sha256.Sum256([]byte(s))
	return hex.EncodeToString(h[:8])
}

func runC17(o *cli.Opts, run *evid.Run) {
	run.Rule("one case = one comparison of an extraction of the current Go circuits with the committed Lean model or with another extraction: ExtractLean(30,4) in-process (repeated) and `gnark-mbu extract-circuit` in fresh processes under several GOMAXPROCS, compared byte-wise and per definition with formal-verification/FormalVerification.lean; every SemaphoreMTB identifier the proof files use must be defined in the extraction; a (depth,batch) sweep, revisiting dimensions in one process, must succeed and be deterministic; non-trivial = distinct (dimension, source, definition)")
	run.Assume("the Lean proofs themselves are not rebuilt (the 2023 toolchain they need is not in the sandbox): the check is model text == extraction and referenced names exist")
	committedPath := filepath.Join(o.Repo, "formal-verification", "FormalVerification.lean")
	cb, err := os.ReadFile(committedPath)
	if err != nil {
		run.Violate("C17/committed", "cannot read the committed model: "+err.Error(), nil)
		return
	}
	committed := string(cb)
	cdefs, corder := splitDefs(committed)
	run.Set("committed_definitions", len(corder))
	run.Set("committed_bytes", len(committed))
	compare := func(key, src, text string) {
		same := text == committed
		defs, order := splitDefs(text)
		if !same {
			// name the definition that drifted
			var drift []string
			for _, n := range corder {
				if d, ok := defs[n]; !ok {
					drift = append(drift, n+" (missing)")
				} else if d != cdefs[n] {
					drift = append(drift, n)
				}
			}
			for _, n := range order {
				if _, ok := cdefs[n]; !ok {
					drift = append(drift, n+" (not in the committed model)")
				}
			}
			if len(drift) > 12 {
				drift = append(drift[:12], fmt.Sprintf("… %d more", len(drift)-12))
			}
			if len(drift) == 0 {
				drift = []string{"text outside definitions (header/namespace)"}
			}
			run.Violate(key, fmt.Sprintf("extraction (%s) differs from the committed Lean model in: %s", src, strings.Join(drift, ", ")), map[string]any{"source": src, "drifted": drift, "extracted_bytes": len(text), "committed_bytes": len(committed)})
		}
		for _, n := range corder {
			run.Case("model-definition", true, src+"/"+n, defs[n] == cdefs[n], map[string]any{"definition": n, "source": src, "digest": sha(cdefs[n])})
		}
	}
	// in-process, repeated (state carried between extractions shows from the second call on)
	var first string
	for rep := 0; rep < 3; rep++ {
		key := fmt.Sprintf("C17/inproc/%d", rep)
		if !run.Wants(key) {
			continue
		}
		text, err := prover.ExtractLean(30, 4)
		if err != nil {
			run.Violate(key, "ExtractLean(30,4) failed: "+err.Error(), nil)
			continue
		}
		if rep == 0 {
			first = text
		}
		compare(key, fmt.Sprintf("ExtractLean(30,4) call %d", rep+1), text)
	}
	run.Stage("inproc")
	// identifiers used by the proof files
	used := map[string][]string{}
	idRe := regexp.MustCompile(`SemaphoreMTB\.([A-Za-z0-9_]+)`)
	renRe := regexp.MustCompile(`open SemaphoreMTB renaming ([A-Za-z0-9_]+)`)
	filepath.Walk(filepath.Join(o.Repo, "formal-verification"), func(p string, info os.FileInfo, err error) error {
		if err != nil || info.IsDir() || !strings.HasSuffix(p, ".lean") || p == committedPath || strings.Contains(p, "lake-packages") {
			return nil
		}
		b, _ := os.ReadFile(p)
		for _, m := range idRe.FindAllStringSubmatch(string(b), -1) {
			used[m[1]] = append(used[m[1]], filepath.Base(p))
		}
		for _, m := range renRe.FindAllStringSubmatch(string(b), -1) {
			used[m[1]] = append(used[m[1]], filepath.Base(p))
		}
		return nil
	})
	if first != "" {
		defs, _ := splitDefs(first)
		var names []string
		for n := range used {
			names = append(names, n)
		}
		sort.Strings(names)
		for _, n := range names {
			_, ok := defs[n]
			if !ok && (n == "F" || n == "Order") {
				ok = strings.Contains(first, "abbrev F") || strings.Contains(first, "def Order")
			}
			if !ok {
				run.Violate("C17/names/"+n, fmt.Sprintf("the proofs refer to SemaphoreMTB.%s (in %s) but the extraction of the current circuit does not define it", n, used[n][0]), nil)
			}
			run.Case("referenced-name", true, n, ok, map[string]any{"name": n, "used_in": used[n][0]})
		}
		run.Set("referenced_names", len(names))
	}
	run.Stage("names")
	// fresh processes
	bin, err := proc.BuildBinary(o.Out, o.Scratch, o.Repo, false)
	if err != nil {
		run.Violate("C17/build", err.Error(), nil)
		return
	}
	gmps := []string{"1", "4", "16", "8", "8"}
	if o.Thorough() {
		gmps = []string{"1", "1", "2", "4", "7", "16", "16", "3", "5", "8", "12"}
	}
	// the model is a function of depth and batch size ALONE: the environment a prover deployment exports for the other
	// commands (MTB_MODE, ...) must not change it
	envs := [][]string{nil, nil, nil, {"MTB_MODE=insertion"}, {"MTB_MODE=deletion"}, nil, nil,
		{"MTB_MODE=deletion", "MTB_TREE_DEPTH=20", "MTB_BATCH_SIZE=100", "MTB_KEYS_FILE=/nonexistent", "MTB_JSON_LOGGING=true"}, {"MTB_MODE=garbage", "GOGC=10"}, {"TZ=Asia/Kolkata", "LANG=tr_TR.UTF-8", "LC_ALL=tr_TR.UTF-8"}, {"HOME=/nonexistent", "TMPDIR=" + o.Scratch}}
	cli.ForEach(len(gmps), 4, func(i int) {
		key := fmt.Sprintf("C17/proc/%d", i)
		if !run.Wants(key) {
			return
		}
		out := filepath.Join(o.Scratch, fmt.Sprintf("c17-%d.lean", i))
		if i%2 == 1 {
			// the output path already holds an older, longer model (regenerating a committed file in place)
			os.WriteFile(out, []byte(committed+strings.Repeat("-- stale tail of an older model\n", 2000)), 0o644)
		}
		env := append([]string{"GOMAXPROCS=" + gmps[i]}, envs[i%len(envs)]...)
		res := proc.Run(bin, nil, 10*time.Minute, env, "extract-circuit", "--tree-depth", "30", "--batch-size", "4", "--output", out)
		if res.Exit != 0 {
			run.Violate(key, fmt.Sprintf("extract-circuit exits %d: %s", res.Exit, tailOf(res.Stderr)), nil)
			return
		}
		b, err := os.ReadFile(out)
		os.Remove(out)
		if err != nil {
			run.Violate(key, "no output file: "+err.Error(), nil)
			return
		}
		compare(key, fmt.Sprintf("`gnark-mbu extract-circuit` with environment %v", env), string(b))
	})
	run.Stage("proc")
	// sweep: success and determinism, revisiting dimensions within one process
	type db struct{ d, b int }
	var sweep []db
	if o.Thorough() {
		for d := 1; d <= 8; d++ {
			for b := 1; b <= 4; b++ {
				sweep = append(sweep, db{d, b})
			}
		}
		sweep = append(sweep, db{16, 8}, db{20, 100}, db{2, 16}, db{1, 60}, db{4, 15}, db{3, 250}, db{31, 33}, db{31, 1}, db{10, 8}, db{3, 2}, db{30, 4}, db{10, 8}, db{2, 1}, db{16, 8})
	} else {
		sweep = []db{{1, 1}, {3, 2}, {10, 8}, {2, 1}, {10, 8}, {5, 3}, {3, 2}, {8, 4}, {31, 1}, {1, 1}, {30, 4}, {2, 16}, {1, 60}, {4, 15}, {2, 16}}
	}
	seen := map[db]string{}
	for i, s := range sweep {
		key := fmt.Sprintf("C17/sweep/%d/d=%d/b=%d", i, s.d, s.b)
		if !run.Wants(key) {
			continue
		}
		text, err := prover.ExtractLean(uint32(s.d), uint32(s.b))
		if err != nil {
			run.Violate(key, fmt.Sprintf("ExtractLean(%d,%d) failed: %v", s.d, s.b, err), nil)
			continue
		}
		dg := sha(text)
		ok := true
		if miss := modelIncomplete(text); miss != "" {
			ok = false
			run.Violate(key+"/incomplete", fmt.Sprintf("ExtractLean(%d,%d) reports success but the model %s (%d bytes)", s.d, s.b, miss, len(text)), nil)
		}
		if prev, had := seen[s]; had && prev != dg {
			ok = false
			run.Violate(key, fmt.Sprintf("ExtractLean(%d,%d) is not deterministic: a later extraction in the same process differs from an earlier one", s.d, s.b), nil)
		}
		// every dimension twice in a row as well
		text2, err2 := prover.ExtractLean(uint32(s.d), uint32(s.b))
		if err2 != nil || sha(text2) != dg {
			ok = false
			run.Violate(key+"/repeat", fmt.Sprintf("ExtractLean(%d,%d) twice in a row gives different text", s.d, s.b), nil)
		}
		if s.d == 30 && s.b == 4 && text != committed {
			ok = false
			compare(key+"/committed", "ExtractLean(30,4) after a sweep of other dimensions", text)
		}
		seen[s] = dg
		run.Case("sweep", true, key, ok, map[string]any{"depth": s.d, "batch": s.b, "digest": dg, "bytes": len(text)})
	}
	// dimensions the circuits do not support (deletion stops at depth 31): extraction may refuse them, but it must
	// never report success with an empty or partial model, and the CLI must not replace a model file by one
	for i, s := range []db{{32, 4}, {33, 1}, {64, 2}} {
		key := fmt.Sprintf("C17/unsupported/%d/d=%d/b=%d", i, s.d, s.b)
		if !run.Wants(key) {
			continue
		}
		text, err := prover.ExtractLean(uint32(s.d), uint32(s.b))
		ok := true
		if err == nil {
			if miss := modelIncomplete(text); miss != "" {
				ok = false
				run.Violate(key, fmt.Sprintf("ExtractLean(%d,%d) returns no error but the model %s (%d bytes)", s.d, s.b, miss, len(text)), nil)
			}
		}
		if i == 0 {
			out := filepath.Join(o.Scratch, "c17-unsupported.lean")
			os.WriteFile(out, []byte(committed), 0o644)
			res := proc.Run(bin, nil, 10*time.Minute, nil, "extract-circuit", "--tree-depth", fmt.Sprint(s.d), "--batch-size", fmt.Sprint(s.b), "--output", out)
			b, _ := os.ReadFile(out)
			os.Remove(out)
			if res.Exit == 0 {
				if miss := modelIncomplete(string(b)); miss != "" {
					ok = false
					run.Violate(key+"/cli", fmt.Sprintf("`extract-circuit --tree-depth %d` exits 0 and leaves a model file that %s (%d bytes)", s.d, miss, len(b)), nil)
				}
			}
			run.Add("cli_unsupported_runs", 1)
		}
		run.Case("unsupported-dimension", true, key, ok, map[string]any{"depth": s.d, "batch": s.b, "refused": err != nil})
	}
	run.Stage("sweep")
	run.Require("definitions compared", run.ClassTally("model-definition").Cases, 50)
	run.Require("referenced names checked", run.ClassTally("referenced-name").Cases, 10)
	run.Require("fresh-process extractions", len(gmps), 3)
}

// modelIncomplete says what a Lean model text lacks to be a complete extraction ("" if nothing).
func modelIncomplete(text string) string {
	switch {
	case len(text) == 0:
		return "is empty"
	case !strings.Contains(text, "def InsertionMbuCircuit_"):
		return "lacks the insertion circuit definition"
	case !strings.Contains(text, "def DeletionMbuCircuit_"):
		return "lacks the deletion circuit definition"
	case !strings.HasSuffix(strings.TrimSpace(text), "end SemaphoreMTB"):
		return "does not end with `end SemaphoreMTB`"
	}
	return ""
}
