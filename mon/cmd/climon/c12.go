package main

import (
	"crypto/sha256"
	"encoding/hex"
	"fmt"
	"io"
	"os"
	"path/filepath"
	"regexp"
	"strings"
	"sync"
	"time"

	"github.com/consensys/gnark-crypto/ecc"
	"github.com/consensys/gnark/backend/groth16"
	"github.com/consensys/gnark/constraint"
	cs "github.com/consensys/gnark/constraint/bn254"

	"worldcoin/gnark-mbu/prover"

	"verifmon/internal/cli"
	"verifmon/internal/evid"
	"verifmon/internal/proc"
)

var solInputRe = regexp.MustCompile(`uint256\[(\d+)\]\s+(?:calldata|memory)\s+input\s*\)`)

func csDigest(c constraint.ConstraintSystem) string {
	h := sha256.New()
	if _, err := c.WriteTo(h); err != nil {
		return "error: " + err.Error()
	}
	return hex.EncodeToString(h.Sum(nil))
}

func fileDigest(path string) (string, error) {
	f, err := os.Open(path)
	if err != nil {
		return "", err
	}
	defer f.Close()
	h := sha256.New()
	if _, err := io.Copy(h, f); err != nil {
		return "", err
	}
	return hex.EncodeToString(h.Sum(nil)), nil
}

func build(mode string, d, b int) (constraint.ConstraintSystem, error) {
	if mode == "insertion" {
		return prover.BuildR1CSInsertion(uint32(d), uint32(b))
	}
	return prover.BuildR1CSDeletion(uint32(d), uint32(b))
}

func setup(mode string, d, b int) (*prover.ProvingSystem, error) {
	if mode == "insertion" {
		return prover.SetupInsertion(uint32(d), uint32(b))
	}
	return prover.SetupDeletion(uint32(d), uint32(b))
}

func importSetup(mode string, d, b int, pk, vk string) (*prover.ProvingSystem, error) {
	if mode == "insertion" {
		return prover.ImportInsertionSetup(uint32(d), uint32(b), pk, vk)
	}
	return prover.ImportDeletionSetup(uint32(d), uint32(b), pk, vk)
}

type digests struct {
	mu sync.Mutex
	m  map[string]string // source -> digest
}

func (d *digests) add(src, dg string) {
	d.mu.Lock()
	d.m[src] = dg
	d.mu.Unlock()
}

func runC12(o *cli.Opts, run *evid.Run) {
	run.Rule("one case = one construction of the constraint system for a (mode, depth, batch): BuildR1CS*, Setup*, Import*Setup (keys written from the setup), each repeated, 8 concurrent compilations in one process, fresh `gnark-mbu r1cs` processes under GOMAXPROCS in {1,2,7,16}, the constraint-system section of `gnark-mbu setup` and `import-setup` keys files; all SHA-256 digests for one dimension must be equal to each other (no pinned constant); " +
		"public inputs must be exactly [1, InputHash] and the exported Solidity verifier must take uint256[1]; deletion depth 32 must be refused by every construction path while insertion depth 32 succeeds; non-trivial = distinct (dimension, construction path, run)")
	run.Assume("digest of ConstraintSystem.WriteTo identifies the constraint system", "schedules = those produced by the OS under load and the GOMAXPROCS values listed")
	type dimM struct {
		mode string
		d, b int
	}
	dims := []dimM{{"insertion", 3, 2}, {"deletion", 3, 2}}
	if o.Thorough() {
		dims = append(dims, dimM{"insertion", 1, 1}, dimM{"deletion", 1, 1}, dimM{"insertion", 10, 3}, dimM{"deletion", 20, 5}, dimM{"insertion", 32, 1}, dimM{"deletion", 31, 1}, dimM{"insertion", 4, 5}, dimM{"deletion", 2, 18})
	}
	bin, err := proc.BuildBinary(o.Out, o.Scratch, o.Repo, false)
	if err != nil {
		run.Violate("C12/build", err.Error(), nil)
		return
	}
	var guardPK, guardVK string // valid key files (of another circuit) for the depth-guard probe of the import path
	var guardMu sync.Mutex
	cli.ForEach(len(dims), 2, func(di int) {
		dm := dims[di]
		key := fmt.Sprintf("C12/%s/d=%d/b=%d", dm.mode, dm.d, dm.b)
		if !run.Wants(key) && run.Only != "" && len(run.Only) < len(key) {
			return
		}
		dg := &digests{m: map[string]string{}}
		record := func(src string, c constraint.ConstraintSystem, err error) {
			if err != nil {
				run.Violate(key+"/"+src, fmt.Sprintf("%s failed: %v", src, err), nil)
				return
			}
			dg.add(src, csDigest(c))
			// public inputs
			if r, ok := c.(*cs.R1CS); ok {
				if len(r.Public) != 2 || r.Public[0] != "1" || r.Public[1] != "InputHash" {
					run.Violate(key+"/"+src+"/public", fmt.Sprintf("public wires are %v, expected exactly [1 InputHash]", r.Public), nil)
				}
			}
			if c.GetNbPublicVariables() != 2 {
				run.Violate(key+"/"+src+"/public", fmt.Sprintf("GetNbPublicVariables() = %d, expected 2 (constant one + InputHash)", c.GetNbPublicVariables()), nil)
			}
			run.Add("public_shape_checks", 1)
		}
		for rep := 0; rep < 2; rep++ {
			c, err := build(dm.mode, dm.d, dm.b)
			record(fmt.Sprintf("BuildR1CS#%d", rep), c, err)
		}
		// concurrent compilations
		var wg sync.WaitGroup
		for g := 0; g < 8; g++ {
			g := g
			wg.Add(1)
			go func() {
				defer wg.Done()
				c, err := build(dm.mode, dm.d, dm.b)
				record(fmt.Sprintf("concurrent#%d", g), c, err)
			}()
		}
		wg.Wait()
		// setup path + import path
		ps, err := setup(dm.mode, dm.d, dm.b)
		if err != nil {
			run.Violate(key+"/Setup", "setup failed: "+err.Error(), nil)
		} else {
			record("Setup", ps.ConstraintSystem, nil)
			pkPath := filepath.Join(o.Scratch, fmt.Sprintf("c12-%d.pk", di))
			vkPath := filepath.Join(o.Scratch, fmt.Sprintf("c12-%d.vk", di))
			writeTo := func(path string, w func(io.Writer) (int64, error)) error {
				f, err := os.Create(path)
				if err != nil {
					return err
				}
				defer f.Close()
				_, err = w(f)
				return err
			}
			if e1, e2 := writeTo(pkPath, ps.ProvingKey.WriteRawTo), writeTo(vkPath, ps.VerifyingKey.WriteRawTo); e1 == nil && e2 == nil {
				for rep := 0; rep < 2; rep++ {
					ips, err := importSetup(dm.mode, dm.d, dm.b, pkPath, vkPath)
					if err != nil {
						run.Violate(key+"/Import", "import failed: "+err.Error(), nil)
						break
					}
					record(fmt.Sprintf("ImportSetup#%d", rep), ips.ConstraintSystem, nil)
					if ips.TreeDepth != uint32(dm.d) || ips.BatchSize != uint32(dm.b) {
						run.Violate(key+"/Import/dims", fmt.Sprintf("imported system reports depth/batch %d/%d, expected %d/%d", ips.TreeDepth, ips.BatchSize, dm.d, dm.b), nil)
					}
				}
				// CLI import-setup
				out := filepath.Join(o.Scratch, fmt.Sprintf("c12-%d-imported.ps", di))
				res := proc.Run(bin, nil, 10*time.Minute, nil, "import-setup", "--mode", dm.mode, "--tree-depth", fmt.Sprint(dm.d), "--batch-size", fmt.Sprint(dm.b), "--pk", pkPath, "--vk", vkPath, "--output", out)
				if res.Exit != 0 {
					run.Violate(key+"/cli-import", fmt.Sprintf("import-setup exits %d: %s", res.Exit, tailOf(res.Stderr)), nil)
				} else if sys, err := prover.ReadSystemFromFile(out); err != nil {
					run.Violate(key+"/cli-import", "keys file written by import-setup does not load: "+err.Error(), nil)
				} else {
					record("cli import-setup file", sys.ConstraintSystem, nil)
				}
				os.Remove(out)
				guardMu.Lock()
				if guardPK == "" {
					guardPK, guardVK = pkPath, vkPath
				} else {
					os.Remove(pkPath)
					os.Remove(vkPath)
				}
				guardMu.Unlock()
			}
			// Solidity verifier arity
			var sb strings.Builder
			if err := ps.ExportSolidity(&sb); err != nil {
				run.Violate(key+"/solidity", "ExportSolidity failed: "+err.Error(), nil)
			} else if m := solInputRe.FindStringSubmatch(sb.String()); m != nil {
				// the verifier's public-input array must have exactly one element (the template's wording may change with gnark)
				if m[1] != "1" {
					run.Violate(key+"/solidity", "exported Solidity verifier takes uint256["+m[1]+"] public inputs, expected exactly one", nil)
				}
				run.Add("solidity_arity_checks", 1)
			} else {
				run.Add("solidity_signature_not_recognised", 1)
			}
		}
		// fresh processes under different GOMAXPROCS
		procs := []string{"1", "2", "7"}
		if o.Thorough() {
			procs = []string{"1", "1", "2", "2", "3", "7", "7", "16", "16", "4", "5", "13"}
		}
		var pw sync.WaitGroup
		for pi, gmp := range procs {
			pi, gmp := pi, gmp
			pw.Add(1)
			go func() {
				defer pw.Done()
				out := filepath.Join(o.Scratch, fmt.Sprintf("c12-%d-%d.r1cs", di, pi))
				if pi%2 == 1 {
					// the export goes over an existing, longer file (an earlier export of a bigger circuit under the
					// same name): the exported constraint system must not depend on what the path held before
					if f, err := os.Create(out); err == nil {
						f.WriteString("stale export of a bigger circuit\n")
						f.Truncate(256 << 20) // sparse
						f.Close()
						run.Add("exports_over_existing_longer_file", 1)
					}
				}
				res := proc.Run(bin, nil, 10*time.Minute, []string{"GOMAXPROCS=" + gmp}, "r1cs", "--mode", dm.mode, "--tree-depth", fmt.Sprint(dm.d), "--batch-size", fmt.Sprint(dm.b), "--output", out)
				if res.Exit != 0 {
					run.Violate(fmt.Sprintf("%s/r1cs-proc/%d", key, pi), fmt.Sprintf("`gnark-mbu r1cs` exits %d: %s", res.Exit, tailOf(res.Stderr)), nil)
					return
				}
				d, err := fileDigest(out)
				os.Remove(out)
				if err != nil {
					run.Violate(fmt.Sprintf("%s/r1cs-proc/%d", key, pi), "cannot read r1cs output: "+err.Error(), nil)
					return
				}
				src := fmt.Sprintf("process r1cs GOMAXPROCS=%s #%d", gmp, pi)
				if pi%2 == 1 {
					src += " (over an existing longer file)"
				}
				dg.add(src, d)
			}()
		}
		// CLI setup keys file
		pw.Add(1)
		go func() {
			defer pw.Done()
			out := filepath.Join(o.Scratch, fmt.Sprintf("c12-%d-setup.ps", di))
			res := proc.Run(bin, nil, 20*time.Minute, []string{"GOMAXPROCS=5"}, "setup", "--mode", dm.mode, "--tree-depth", fmt.Sprint(dm.d), "--batch-size", fmt.Sprint(dm.b), "--output", out)
			defer os.Remove(out)
			if res.Exit != 0 {
				run.Violate(key+"/cli-setup", fmt.Sprintf("`gnark-mbu setup` exits %d: %s", res.Exit, tailOf(res.Stderr)), nil)
				return
			}
			sys, err := prover.ReadSystemFromFile(out)
			if err != nil {
				run.Violate(key+"/cli-setup", "keys file written by setup does not load: "+err.Error(), nil)
				return
			}
			dg.add("cli setup file", csDigest(sys.ConstraintSystem))
			if sys.TreeDepth != uint32(dm.d) || sys.BatchSize != uint32(dm.b) {
				run.Violate(key+"/cli-setup/dims", fmt.Sprintf("setup file reports depth/batch %d/%d", sys.TreeDepth, sys.BatchSize), nil)
			}
		}()
		pw.Wait()
		// all digests equal
		distinct := map[string][]string{}
		for src, d := range dg.m {
			distinct[d] = append(distinct[d], src)
		}
		sample := map[string]any{"mode": dm.mode, "depth": dm.d, "batch": dm.b, "constructions": len(dg.m), "distinct_digests": len(distinct)}
		for d := range distinct {
			sample["digest"] = d
			break
		}
		if len(distinct) > 1 {
			run.Violate(key+"/digests", fmt.Sprintf("%d different constraint systems for one dimension", len(distinct)), distinct)
		}
		for src := range dg.m {
			run.Case(dm.mode+"/"+strings.Fields(src)[0], true, key+src, len(distinct) == 1, sample)
		}
		run.Add("dimensions_compared", 1)
	})
	run.Stage("digests")
	// compile-only sequences: multi-block and single-block circuits interleaved in one process
	// (state carried from one compilation to the next would change a later digest), each
	// compared with a fresh process
	type seqDim struct {
		mode string
		d, b int
	}
	seq := []seqDim{{"insertion", 2, 5}, {"deletion", 3, 2}, {"insertion", 2, 5}, {"deletion", 2, 18}, {"insertion", 3, 2}, {"deletion", 2, 18}, {"insertion", 2, 5},
		// same mode and batch size as dimensions built earlier in this process, different depth
		{"insertion", 4, 2}, {"deletion", 5, 2}, {"insertion", 3, 5}, {"insertion", 4, 2}}
	seen := map[seqDim]string{}
	for i, sd := range seq {
		key := fmt.Sprintf("C12/sequence/%d/%s/d=%d/b=%d", i, sd.mode, sd.d, sd.b)
		if !run.Wants(key) {
			continue
		}
		c, err := build(sd.mode, sd.d, sd.b)
		if err != nil {
			run.Violate(key, "build failed: "+err.Error(), nil)
			continue
		}
		d := csDigest(c)
		ok := true
		if prev, had := seen[sd]; had && prev != d {
			ok = false
			run.Violate(key, fmt.Sprintf("compiling %s (%d,%d) again in the same process gives a different constraint system", sd.mode, sd.d, sd.b), nil)
		}
		if _, had := seen[sd]; !had {
			out := filepath.Join(o.Scratch, fmt.Sprintf("c12-seq-%d.r1cs", i))
			res := proc.Run(bin, nil, 10*time.Minute, []string{"GOMAXPROCS=3"}, "r1cs", "--mode", sd.mode, "--tree-depth", fmt.Sprint(sd.d), "--batch-size", fmt.Sprint(sd.b), "--output", out)
			if fd, err := fileDigest(out); res.Exit == 0 && err == nil && fd != d {
				ok = false
				run.Violate(key+"/process", fmt.Sprintf("a fresh `gnark-mbu r1cs` process and the in-process compilation of %s (%d,%d) differ", sd.mode, sd.d, sd.b), nil)
			}
			os.Remove(out)
		}
		seen[sd] = d
		run.Case("sequence/"+sd.mode, true, key, ok, map[string]any{"mode": sd.mode, "depth": sd.d, "batch": sd.b, "position": i, "digest": d})
	}
	run.Stage("sequence")
	// construction paths at larger dimensions, compile only: BuildR1CS* against Import*Setup (the import path only
	// loads the key files, so key files of another circuit serve) and a fresh process
	if guardPK != "" {
		big := []seqDim{{"insertion", 16, 16}, {"deletion", 16, 16}}
		if o.Thorough() {
			big = append(big, seqDim{"insertion", 30, 10}, seqDim{"deletion", 8, 40}, seqDim{"insertion", 32, 8}, seqDim{"deletion", 31, 9})
		}
		cli.ForEach(len(big), 2, func(i int) {
			sd := big[i]
			key := fmt.Sprintf("C12/paths/%s/d=%d/b=%d", sd.mode, sd.d, sd.b)
			if !run.Wants(key) {
				return
			}
			c, err := build(sd.mode, sd.d, sd.b)
			if err != nil {
				run.Violate(key, "build failed: "+err.Error(), nil)
				return
			}
			d := csDigest(c)
			ok := true
			ips, err := importSetup(sd.mode, sd.d, sd.b, guardPK, guardVK)
			if err != nil {
				ok = false
				run.Violate(key+"/import", "Import*Setup failed: "+err.Error(), nil)
			} else if di := csDigest(ips.ConstraintSystem); di != d {
				ok = false
				run.Violate(key+"/import", fmt.Sprintf("the key-import path builds a different constraint system than BuildR1CS* for %s (%d,%d): %d vs %d constraints", sd.mode, sd.d, sd.b, ips.ConstraintSystem.GetNbConstraints(), c.GetNbConstraints()), nil)
			}
			out := filepath.Join(o.Scratch, fmt.Sprintf("c12-big-%d.r1cs", i))
			res := proc.Run(bin, nil, 20*time.Minute, []string{"GOMAXPROCS=6"}, "r1cs", "--mode", sd.mode, "--tree-depth", fmt.Sprint(sd.d), "--batch-size", fmt.Sprint(sd.b), "--output", out)
			if fd, err := fileDigest(out); res.Exit == 0 && err == nil && fd != d {
				ok = false
				run.Violate(key+"/process", "a fresh `gnark-mbu r1cs` process builds a different constraint system than the in-process BuildR1CS*", nil)
			}
			os.Remove(out)
			run.Case("paths-large/"+sd.mode, true, key, ok, map[string]any{"mode": sd.mode, "depth": sd.d, "batch": sd.b, "constraints": c.GetNbConstraints(), "digest": d})
		})
	}
	run.Stage("paths-large")
	// depth guard on every construction path
	guard := func(sub string, err error, sys any) {
		key := "C12/guard/" + sub
		if err == nil {
			run.Violate(key, "a deletion circuit deeper than 31 levels was built by "+sub+"; depths above 31 must be refused", nil)
		}
		run.Case("depth-guard", true, key, err == nil, map[string]any{"path": sub, "refused": err != nil, "error": fmt.Sprint(err)})
	}
	if run.Wants("C12/guard") {
		_, err := prover.BuildR1CSDeletion(32, 1)
		guard("BuildR1CSDeletion(32,1)", err, nil)
		_, err = prover.BuildR1CSDeletion(33, 2)
		guard("BuildR1CSDeletion(33,2)", err, nil)
		// every depth above 31, including those at which 1<<depth overflows a machine word
		for _, d := range []uint32{34, 40, 47, 62, 63, 64, 65, 95, 100, 127, 128, 255, 256, 1 << 16} {
			_, err = prover.BuildR1CSDeletion(d, 1)
			guard(fmt.Sprintf("BuildR1CSDeletion(%d,1)", d), err, nil)
		}
		_, err = prover.SetupDeletion(32, 1)
		guard("SetupDeletion(32,1)", err, nil)
		if guardPK != "" {
			_, err = prover.ImportDeletionSetup(32, 1, guardPK, guardVK)
			guard("ImportDeletionSetup(32,1)", err, nil)
			out := filepath.Join(o.Scratch, "c12-guard.ps")
			res := proc.Run(bin, nil, 10*time.Minute, nil, "import-setup", "--mode", "deletion", "--tree-depth", "32", "--batch-size", "1", "--pk", guardPK, "--vk", guardVK, "--output", out)
			var e error
			if res.Exit != 0 {
				e = fmt.Errorf("exit %d", res.Exit)
			}
			guard("cli import-setup --mode deletion --tree-depth 32", e, nil)
			os.Remove(out)
		}
		for _, cmd := range []string{"r1cs", "setup"} {
			out := filepath.Join(o.Scratch, "c12-guard-"+cmd)
			res := proc.Run(bin, nil, 10*time.Minute, nil, cmd, "--mode", "deletion", "--tree-depth", "32", "--batch-size", "1", "--output", out)
			var e error
			if res.Exit != 0 {
				e = fmt.Errorf("exit %d", res.Exit)
			}
			guard("cli "+cmd+" --mode deletion --tree-depth 32", e, nil)
			os.Remove(out)
		}
		// insertion at depth 32 and deletion at depth 31 must still build
		if c, err := prover.BuildR1CSInsertion(32, 1); err != nil {
			run.Violate("C12/guard/insertion32", "BuildR1CSInsertion(32,1) failed: "+err.Error(), nil)
		} else {
			run.Case("depth-32-insertion-builds", true, "ins32", true, map[string]any{"constraints": c.GetNbConstraints()})
		}
		if c, err := prover.BuildR1CSDeletion(31, 1); err != nil {
			run.Violate("C12/guard/deletion31", "BuildR1CSDeletion(31,1) failed: "+err.Error(), nil)
		} else {
			run.Case("depth-31-deletion-builds", true, "del31", true, map[string]any{"constraints": c.GetNbConstraints()})
		}
	}
	if guardPK != "" {
		os.Remove(guardPK)
		os.Remove(guardVK)
	}
	run.Stage("guard")
	run.Require("dimensions compared", run.GetInt("dimensions_compared"), 2)
	run.Require("depth-guard probes", run.ClassTally("depth-guard").Cases, 6)
	_ = groth16.NewProof
	_ = ecc.BN254
}

func tailOf(b []byte) string {
	s := strings.TrimSpace(string(b))
	if len(s) > 400 {
		s = s[len(s)-400:]
	}
	return s
}
