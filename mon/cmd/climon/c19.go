package main

import (
	"bytes"
	"encoding/json"
	"fmt"
	"math/big"
	"os"
	"path/filepath"
	"sort"
	"strings"
	"sync"
	"time"

	"github.com/consensys/gnark-crypto/ecc"
	"github.com/consensys/gnark/backend/groth16"

	"verifmon/internal/cases"
	"verifmon/internal/cli"
	"verifmon/internal/evid"
	"verifmon/internal/gen"
	"verifmon/internal/proc"
	"verifmon/internal/ref"
	"verifmon/internal/sysutil"
)

type c19Sys struct {
	mode   string
	d, b   int
	keys   string
	vk     groth16.VerifyingKey
	tag    string
	proofs []c19Proof
}

type c19Proof struct {
	pt   ref.Points
	hash *big.Int
}

func oneJSONValue(out []byte) (json.RawMessage, string) {
	dec := json.NewDecoder(bytes.NewReader(out))
	var v json.RawMessage
	if err := dec.Decode(&v); err != nil {
		return nil, "stdout is not JSON: " + err.Error()
	}
	rest, _ := readAll(dec)
	if strings.TrimSpace(rest) != "" {
		return v, fmt.Sprintf("stdout carries extra bytes after the proof: %q", truncS(rest, 120))
	}
	if !bytes.HasPrefix(bytes.TrimLeft(out, " \t"), []byte("{")) {
		return v, "stdout does not start with the proof object"
	}
	return v, ""
}

func readAll(dec *json.Decoder) (string, error) {
	var sb strings.Builder
	buf := make([]byte, 4096)
	r := dec.Buffered()
	for {
		n, err := r.Read(buf)
		sb.Write(buf[:n])
		if err != nil {
			break
		}
	}
	return sb.String(), nil
}

func truncS(s string, n int) string {
	if len(s) > n {
		return s[:n] + "…"
	}
	return s
}

func runC19(o *cli.Opts, run *evid.Run) {
	run.Rule("one case = one invocation of the real gnark-mbu binary in a fresh process: setup -> gen-test-params | prove -> verify; prove on independently written parameter documents (incl. short roots) with stdout required to be exactly one JSON proof; verify on CLI proofs, on re-randomised valid derivatives written by an independent codec (short coordinates first), on tampered proofs, wrong hashes, other-mode keys; unprovable parameters; absent/garbage modes on every command; missing/empty/truncated/directory keys files. " +
		"oracle for verify's exit status = gnark Verify in the monitor with the verifying key from export-vk; non-trivial = distinct (command, inputs)")
	run.Assume("exit status 0 <=> success; input hash passed as 0x-hex (minimal and zero-padded)", "MTB_MODE is not set in the environment of the children")
	os.Unsetenv("MTB_MODE")
	bin, err := proc.BuildBinary(o.Out, o.Scratch, o.Repo, false)
	if err != nil {
		run.Violate("C19/build", err.Error(), nil)
		return
	}
	type spec struct {
		mode string
		d, b int
		tag  string
	}
	// (1,2): a batch that fills the whole tree
	// (20,3): the one-line parameter document is larger than 4 KiB (a buffered reader's default size)
	specs := []spec{{"insertion", 3, 2, "A"}, {"deletion", 3, 2, "A"}, {"insertion", 1, 2, "A"}, {"insertion", 20, 3, "A"}}
	if o.Thorough() {
		// (30,32): parameter document larger than 64 KiB (a line scanner's default token limit)
		specs = append(specs, spec{"deletion", 30, 32, "A"}, spec{"insertion", 3, 2, "B"}, spec{"insertion", 1, 1, "A"}, spec{"deletion", 1, 1, "A"}, spec{"insertion", 10, 3, "A"}, spec{"deletion", 20, 1, "A"}, spec{"insertion", 32, 1, "A"}, spec{"deletion", 31, 1, "A"})
	}
	systems := make([]*c19Sys, len(specs))
	cli.ForEach(len(specs), 3, func(i int) {
		sp := specs[i]
		key := fmt.Sprintf("C19/%s%s/d=%d/b=%d", sp.mode, sp.tag, sp.d, sp.b)
		s := &c19Sys{mode: sp.mode, d: sp.d, b: sp.b, tag: sp.tag, keys: filepath.Join(o.Scratch, fmt.Sprintf("c19-%d.ps", i))}
		res := proc.Run(bin, nil, 30*time.Minute, nil, "setup", "--mode", sp.mode, "--tree-depth", fmt.Sprint(sp.d), "--batch-size", fmt.Sprint(sp.b), "--output", s.keys)
		run.Add("cli_invocations", 1)
		if res.Exit != 0 || res.TimedOut {
			run.Violate(key+"/setup", fmt.Sprintf("setup exits %d: %s", res.Exit, tailOf(res.Stderr)), nil)
			return
		}
		vkPath := s.keys + ".vk"
		res = proc.Run(bin, nil, 10*time.Minute, nil, "export-vk", "--keys-file", s.keys, "--output", vkPath)
		run.Add("cli_invocations", 1)
		if res.Exit != 0 {
			run.Violate(key+"/export-vk", fmt.Sprintf("export-vk exits %d: %s", res.Exit, tailOf(res.Stderr)), nil)
			return
		}
		f, err := os.Open(vkPath)
		if err != nil {
			run.Violate(key+"/export-vk", "no vk file: "+err.Error(), nil)
			return
		}
		s.vk = groth16.NewVerifyingKey(ecc.BN254)
		_, err = s.vk.ReadFrom(f)
		f.Close()
		os.Remove(vkPath)
		if err != nil {
			run.Violate(key+"/export-vk", "exported verifying key does not parse: "+err.Error(), nil)
			return
		}
		systems[i] = s
		run.Case("setup+export-vk", true, key, true, map[string]any{"mode": sp.mode, "depth": sp.d, "batch": sp.b})
	})
	run.Stage("setup")
	var live []*c19Sys
	for _, s := range systems {
		if s != nil {
			live = append(live, s)
		}
	}
	if len(live) == 0 {
		run.Require("systems set up", 0, 1)
		return
	}
	var mu sync.Mutex
	// helper: prove through the CLI
	prove := func(s *c19Sys, key string, doc []byte, wantOK bool, hash *big.Int, class string, sample map[string]any) {
		res := proc.Run(bin, doc, 10*time.Minute, nil, "prove", "--mode", s.mode, "--keys-file", s.keys)
		run.Add("cli_invocations", 1)
		if res.TimedOut {
			run.Inconclusive(key + ": prove timed out")
			return
		}
		ok := true
		if !wantOK {
			if res.Exit == 0 {
				ok = false
				run.Violate(key, "prove exits 0 on unprovable/invalid parameters", sample)
			}
			if len(bytes.TrimSpace(res.Stdout)) != 0 {
				ok = false
				run.Violate(key+"/stdout", "prove wrote to stdout although it failed: "+truncS(string(res.Stdout), 200), sample)
			}
			run.Case(class, true, key, !ok, sample)
			return
		}
		if res.Exit != 0 {
			run.Violate(key, fmt.Sprintf("prove exits %d on provable parameters: %s", res.Exit, tailOf(res.Stderr)), sample)
			run.Case(class, true, key, false, sample)
			return
		}
		v, problem := oneJSONValue(res.Stdout)
		if problem != "" {
			ok = false
			run.Violate(key+"/stdout", "prove: "+problem, map[string]any{"stdout": truncS(string(res.Stdout), 400)})
		}
		if !bytes.HasSuffix(res.Stdout, []byte("\n")) {
			ok = false
			run.Violate(key+"/stdout", "prove output does not end with a newline", nil)
		}
		if v != nil {
			coords, err := ref.ReadProofDoc(v)
			if err != nil {
				ok = false
				run.Violate(key+"/proof", "prove output is not the documented proof JSON: "+err.Error(), map[string]any{"stdout": truncS(string(res.Stdout), 400)})
			} else if pt, err := ref.PointsFromCoords(coords); err != nil {
				ok = false
				run.Violate(key+"/proof", "proof coordinates out of range: "+err.Error(), nil)
			} else if err := sysutil.Verify(pt, s.vk, hash); err != nil {
				ok = false
				run.Violate(key+"/proof", "the proof printed by prove does not verify for the parameters' input hash: "+err.Error(), sample)
			} else {
				mu.Lock()
				s.proofs = append(s.proofs, c19Proof{pt, hash})
				mu.Unlock()
			}
		}
		if len(res.Stderr) == 0 {
			run.Add("prove_without_stderr_logs", 1)
		}
		run.Case(class, true, key, ok, sample)
	}
	verify := func(s *c19Sys, key string, proofDoc []byte, hashArg string, want bool, class string, sample map[string]any) {
		res := proc.Run(bin, proofDoc, 10*time.Minute, nil, "verify", "--mode", s.mode, "--keys-file", s.keys, "--input-hash", hashArg)
		run.Add("cli_invocations", 1)
		if res.TimedOut {
			run.Inconclusive(key + ": verify timed out")
			return
		}
		got := res.Exit == 0
		if got != want {
			what := fmt.Sprintf("verify exits %d for a proof that IS valid for the supplied hash under these keys: %s", res.Exit, tailOf(res.Stderr))
			if got {
				what = "verify exits 0 for a proof that is NOT valid for the supplied hash under these keys"
			}
			run.Violate(key, what, sample)
		}
		run.Case(class, true, key, got, sample)
	}
	// 1. gen-test-params | prove | verify
	cli.ForEach(len(live), 3, func(i int) {
		s := live[i]
		key := fmt.Sprintf("C19/%s%s/d=%d/b=%d/pipeline", s.mode, s.tag, s.d, s.b)
		if !run.Wants(key) {
			return
		}
		res := proc.Run(bin, nil, 5*time.Minute, nil, "gen-test-params", "--mode", s.mode, "--tree-depth", fmt.Sprint(s.d), "--batch-size", fmt.Sprint(s.b))
		run.Add("cli_invocations", 1)
		if res.Exit != 0 {
			run.Violate(key, fmt.Sprintf("gen-test-params exits %d", res.Exit), nil)
			return
		}
		var hash *big.Int
		if s.mode == "insertion" {
			if p, err := ref.ReadIns(res.Stdout); err == nil {
				hash = p.InputHash
			}
		} else if p, err := ref.ReadDel(res.Stdout); err == nil {
			hash = p.InputHash
		}
		if hash == nil {
			run.Violate(key, "gen-test-params output is not a parameter document", nil)
			return
		}
		prove(s, key+"/prove", res.Stdout, true, hash, "pipeline/gen-test-params|prove", map[string]any{"mode": s.mode, "depth": s.d, "batch": s.b})
	})
	run.Stage("pipeline")
	// 1b. gen-test-params must work at every supported dimension (no setup needed): in particular batches that fill
	// the tree (insertion: batch = 2^depth, deletion: 2*batch = 2^depth)
	{
		type gd struct {
			mode string
			d, b int
		}
		var dims []gd
		for _, d := range []int{1, 2, 3, 4, 6} {
			for _, b := range []int{1, 1 << uint(d-1), 1<<uint(d-1) + 1, 1 << uint(d)} {
				if b >= 1 && b <= 1<<uint(d) {
					dims = append(dims, gd{"insertion", d, b})
				}
				if b >= 1 && 2*b <= 1<<uint(d) {
					dims = append(dims, gd{"deletion", d, b})
				}
			}
		}
		dims = append(dims, gd{"insertion", 32, 3}, gd{"deletion", 31, 3}, gd{"insertion", 20, 100}, gd{"deletion", 20, 100})
		cli.ForEach(len(dims), 8, func(i int) {
			g := dims[i]
			key := fmt.Sprintf("C19/gen-test-params/%s/d=%d/b=%d", g.mode, g.d, g.b)
			if !run.Wants(key) {
				return
			}
			res := proc.Run(bin, nil, 5*time.Minute, nil, "gen-test-params", "--mode", g.mode, "--tree-depth", fmt.Sprint(g.d), "--batch-size", fmt.Sprint(g.b))
			run.Add("cli_invocations", 1)
			ok := res.Exit == 0
			if ok {
				if g.mode == "insertion" {
					_, err := ref.ReadIns(res.Stdout)
					ok = err == nil
				} else {
					_, err := ref.ReadDel(res.Stdout)
					ok = err == nil
				}
			}
			if !ok {
				run.Violate(key, fmt.Sprintf("gen-test-params for a supported dimension (%s depth %d batch %d) fails (exit %d) or prints something that is not a parameter document: %s", g.mode, g.d, g.b, res.Exit, tailOf(res.Stderr)), nil)
			}
			run.Case("gen-test-params/"+g.mode, true, key, ok, map[string]any{"mode": g.mode, "depth": g.d, "batch": g.b})
		})
	}
	run.Stage("gen-test-params")
	// 2. prove on independently written documents (valid incl. short roots; unprovable)
	type pjob struct {
		s *c19Sys
		k int
	}
	var pjobs []pjob
	nValid := o.Pick(6, 20)
	for _, s := range live {
		if s.d > 12 {
			continue
		}
		for k := 0; k < nValid+o.Pick(4, 12); k++ {
			pjobs = append(pjobs, pjob{s, k})
		}
	}
	cli.ForEach(len(pjobs), 6, func(i int) {
		s, k := pjobs[i].s, pjobs[i].k
		key := fmt.Sprintf("C19/%s%s/d=%d/b=%d/prove/%d", s.mode, s.tag, s.d, s.b, k)
		if !run.Wants(key) {
			return
		}
		r := gen.RNG(o.Seed, key)
		style := []string{"hex", "padhex", "dec", "HEX"}[k%4]
		if k < nValid { // valid; even k search for a root with leading zero bytes
			for tries := 0; tries < 3000; tries++ {
				if s.mode == "insertion" {
					c := sysutil.ValidIns(r, s.d, s.b)
					if k%2 == 0 && s.d <= 8 && c.Pre.BitLen() > 248 && c.Post.BitLen() > 248 {
						continue
					}
					p := sysutil.InsParams(c)
					if c.Pre.BitLen() <= 248 || c.Post.BitLen() <= 248 {
						run.Add("short_root_documents", 1)
					}
					prove(s, key, ref.MustJSON(ref.InsDoc(p, style)), true, p.InputHash, "prove/valid-independent-document", map[string]any{"mode": s.mode, "style": style, "batch": c.Describe()})
					return
				}
				c := sysutil.ValidDel(r, s.d, s.b)
				if k%2 == 0 && s.d <= 8 && c.Pre.BitLen() > 248 && c.Post.BitLen() > 248 {
					continue
				}
				p := sysutil.DelParams(c)
				if c.Pre.BitLen() <= 248 || c.Post.BitLen() <= 248 {
					run.Add("short_root_documents", 1)
				}
				prove(s, key, ref.MustJSON(ref.DelDoc(p, style)), true, p.InputHash, "prove/valid-independent-document", map[string]any{"mode": s.mode, "style": style, "batch": c.Describe()})
				return
			}
			return
		}
		// unprovable: an invalid batch class, a wrong hash, or a malformed document
		switch k % 4 {
		case 0:
			prove(s, key, []byte(`{"inputHash":"0x1","preRoot":"zz"}`), false, nil, "prove/malformed-document", map[string]any{"mode": s.mode})
		case 1:
			if s.mode == "insertion" {
				p := sysutil.InsParams(sysutil.ValidIns(r, s.d, s.b))
				p.InputHash = new(big.Int).Add(p.InputHash, big.NewInt(1))
				prove(s, key, ref.MustJSON(ref.InsDoc(p, "hex")), false, nil, "prove/wrong-input-hash", map[string]any{"mode": s.mode})
			} else {
				p := sysutil.DelParams(sysutil.ValidDel(r, s.d, s.b))
				p.InputHash = new(big.Int).Add(p.InputHash, big.NewInt(1))
				prove(s, key, ref.MustJSON(ref.DelDoc(p, "hex")), false, nil, "prove/wrong-input-hash", map[string]any{"mode": s.mode})
			}
		default:
			if s.mode == "insertion" {
				cls := []string{"inv/post-random", "inv/sibling-corrupt", "inv/occupied-genuine-path", "inv/wrong-pre", "inv/start-past-end"}[r.Intn(5)]
				c, ok := cases.BN254.Insertion(r, cls, s.d, s.b)
				if !ok || c.Valid || !sysutil.InsFits(c) {
					return
				}
				prove(s, key, ref.MustJSON(ref.InsDoc(sysutil.InsParams(c), "hex")), false, nil, "prove/invalid-batch", map[string]any{"mode": s.mode, "class": cls})
			} else {
				cls := []string{"inv/post-random", "inv/sibling-corrupt", "inv/wrong-item", "inv/post-is-pre", "inv/index-2^(D+1)"}[r.Intn(5)]
				c, ok := cases.BN254.Deletion(r, cls, s.d, s.b)
				if !ok || c.Valid || !sysutil.DelFits(c) {
					return
				}
				prove(s, key, ref.MustJSON(ref.DelDoc(sysutil.DelParams(c), "hex")), false, nil, "prove/invalid-batch", map[string]any{"mode": s.mode, "class": cls})
			}
		}
	})
	run.Stage("prove")
	// 3. verify: CLI proofs, re-randomised derivatives (short coordinates first), tampering, wrong hashes, other keys
	type vjob func()
	var vjobs []vjob
	for si, s := range live {
		s := s
		if len(s.proofs) == 0 {
			continue
		}
		delta := ref.VKDelta(s.vk)
		base := fmt.Sprintf("C19/%s%s/d=%d/b=%d/verify", s.mode, s.tag, s.d, s.b)
		r := gen.RNG(o.Seed, base)
		// own proofs with their own hash in minimal and padded hex
		for pi, p := range s.proofs {
			p, pi := p, pi
			vjobs = append(vjobs, func() {
				style := []string{"hex", "padhex"}[pi%2]
				verify(s, fmt.Sprintf("%s/own/%d", base, pi), p.pt.ProofDoc("hex"), ref.Num(p.hash, style), true, "verify/cli-proof-own-hash", map[string]any{"mode": s.mode, "hash": ref.Num(p.hash, style), "hash_hex_digits": len(p.hash.Text(16))})
			})
			if len(p.hash.Text(16))%2 == 1 {
				run.Add("hashes_with_odd_hex_length", 1)
			}
		}
		// derivatives
		nDer := o.Pick(30, 300)
		if s.d*s.b > 500 {
			nDer = 3 // every verify invocation on such a system loads several hundred MB of keys
		}
		var ders []ref.Points
		for len(ders) < 40*nDer && len(ders) < 4000 {
			ders = append(ders, ref.Rerandomise(s.proofs[len(ders)%len(s.proofs)].pt, delta, r))
		}
		sort.SliceStable(ders, func(i, j int) bool { return ders[i].ShortCoords() > ders[j].ShortCoords() })
		for di := 0; di < nDer && di < len(ders); di++ {
			di := di
			// the derivative belongs to the proof it was derived from
			d := ders[di]
			var hash *big.Int
			for _, p := range s.proofs {
				if sysutil.Verify(d, s.vk, p.hash) == nil {
					hash = p.hash
					break
				}
			}
			if hash == nil {
				continue
			}
			if d.ShortCoords() > 0 {
				run.Add("derivatives_with_short_coordinate", 1)
			}
			vjobs = append(vjobs, func() {
				verify(s, fmt.Sprintf("%s/derived/%d", base, di), d.ProofDoc([]string{"hex", "padhex"}[di%2]), ref.Num(hash, "hex"), true, "verify/rerandomised-valid-proof", map[string]any{"mode": s.mode, "short_coordinates": d.ShortCoords()})
			})
		}
		// tampering
		p0 := s.proofs[0]
		c0 := p0.pt.Coords()
		for ci := 0; ci < 8; ci++ {
			ci := ci
			c := c0
			c[ci] = new(big.Int).Xor(c0[ci], new(big.Int).Lsh(big.NewInt(1), uint(r.Intn(250))))
			valid := false
			if pt, err := ref.PointsFromCoords(c); err == nil && pt.OnCurve() {
				valid = sysutil.Verify(pt, s.vk, p0.hash) == nil
			}
			doc := coordsDoc(c)
			vjobs = append(vjobs, func() {
				verify(s, fmt.Sprintf("%s/tamper/coord%d", base, ci), doc, ref.Num(p0.hash, "hex"), valid, "verify/tampered-coordinate", map[string]any{"mode": s.mode, "coordinate": ci})
			})
		}
		// a coordinate with its sign flipped is not a coordinate: the document is not a valid proof
		for _, ci := range []int{0, 3, 7} {
			ci := ci
			c := c0
			c[ci] = new(big.Int).Neg(c0[ci])
			doc := coordsDoc(c)
			vjobs = append(vjobs, func() {
				verify(s, fmt.Sprintf("%s/tamper/negated-coord%d", base, ci), doc, ref.Num(p0.hash, "hex"), false, "verify/negated-coordinate", map[string]any{"mode": s.mode, "coordinate": ci})
			})
		}
		swaps := map[string][8]int{"A.x<->A.y": {1, 0, 2, 3, 4, 5, 6, 7}, "B pairs transposed": {0, 1, 3, 2, 5, 4, 6, 7}, "A<->C": {6, 7, 2, 3, 4, 5, 0, 1}, "B.x<->B.y": {0, 1, 4, 5, 2, 3, 6, 7}}
		for name, perm := range swaps {
			name := name
			var c [8]*big.Int
			for i := range c {
				c[i] = c0[perm[i]]
			}
			valid := false
			if pt, err := ref.PointsFromCoords(c); err == nil && pt.OnCurve() {
				valid = sysutil.Verify(pt, s.vk, p0.hash) == nil
			}
			doc := coordsDoc(c)
			vjobs = append(vjobs, func() {
				verify(s, fmt.Sprintf("%s/tamper/%s", base, name), doc, ref.Num(p0.hash, "hex"), valid, "verify/reordered-coordinates", map[string]any{"mode": s.mode, "swap": name})
			})
		}
		// wrong hashes
		for hi, h := range []*big.Int{new(big.Int).Add(p0.hash, big.NewInt(1)), new(big.Int).Sub(p0.hash, big.NewInt(1)), big.NewInt(0), gen.Below(r, ref.R)} {
			hi, h := hi, h
			if h.Sign() < 0 {
				continue
			}
			vjobs = append(vjobs, func() {
				verify(s, fmt.Sprintf("%s/wrong-hash/%d", base, hi), p0.pt.ProofDoc("hex"), ref.Num(h, "hex"), false, "verify/wrong-hash", map[string]any{"mode": s.mode})
			})
		}
		if len(s.proofs) > 1 && s.proofs[1].hash.Cmp(p0.hash) != 0 {
			vjobs = append(vjobs, func() {
				verify(s, base+"/wrong-hash/other-batch", p0.pt.ProofDoc("hex"), ref.Num(s.proofs[1].hash, "hex"), false, "verify/other-batch-hash", map[string]any{"mode": s.mode})
			})
		}
		// keys of another system of the same shape (other mode, or independent setup), each with its own --mode
		for oi, other := range live {
			if oi == si || other.d != s.d || other.b != s.b {
				continue
			}
			other := other
			vjobs = append(vjobs, func() {
				verify(other, fmt.Sprintf("%s/other-keys/%s%s", base, other.mode, other.tag), p0.pt.ProofDoc("hex"), ref.Num(p0.hash, "hex"), false, "verify/other-system-keys", map[string]any{"proof_of": s.mode + s.tag, "keys_of": other.mode + other.tag})
			})
		}
		// garbage on stdin
		for gi, g := range []string{"", "{}", "not json", `{"ar":["0x1"],"bs":[],"krs":[]}`} {
			gi, g := gi, g
			vjobs = append(vjobs, func() {
				verify(s, fmt.Sprintf("%s/garbage/%d", base, gi), []byte(g), ref.Num(p0.hash, "hex"), false, "verify/garbage-proof", map[string]any{"stdin": g})
			})
		}
		vjobs = append(vjobs, func() {
			verify(s, base+"/bad-hash-arg", p0.pt.ProofDoc("hex"), "zz", false, "verify/non-numeric-hash", nil)
		})
	}
	// shuffled order against the shared files
	rs := gen.RNG(o.Seed, "C19/shuffle")
	rs.Shuffle(len(vjobs), func(i, j int) { vjobs[i], vjobs[j] = vjobs[j], vjobs[i] })
	cli.ForEach(len(vjobs), 8, func(i int) { vjobs[i]() })
	run.Stage("verify")
	// 4. modes and keys files
	s0 := live[0]
	var goodDoc []byte
	{
		r := gen.RNG(o.Seed, "C19/modes")
		if s0.mode == "insertion" {
			goodDoc = ref.MustJSON(ref.InsDoc(sysutil.InsParams(sysutil.ValidIns(r, s0.d, s0.b)), "hex"))
		} else {
			goodDoc = ref.MustJSON(ref.DelDoc(sysutil.DelParams(sysutil.ValidDel(r, s0.d, s0.b)), "hex"))
		}
	}
	type mjob struct {
		name string
		args []string
		in   []byte
	}
	var mjobs []mjob
	modeVariants := [][]string{{}, {"--mode", ""}, {"--mode", "Insertion"}, {"--mode", "garbage"}, {"--mode", "insertion "}, {"--mode", "DELETION"}}
	proofDoc := []byte("{}")
	hashArg := "0x1"
	if len(s0.proofs) > 0 {
		proofDoc, hashArg = s0.proofs[0].pt.ProofDoc("hex"), ref.Num(s0.proofs[0].hash, "hex")
	}
	for vi, mv := range modeVariants {
		tag := fmt.Sprintf("mode%d", vi)
		mjobs = append(mjobs,
			mjob{"setup/" + tag, append([]string{"setup", "--tree-depth", "1", "--batch-size", "1", "--output", filepath.Join(o.Scratch, "c19-bad-"+tag+".ps")}, mv...), nil},
			mjob{"r1cs/" + tag, append([]string{"r1cs", "--tree-depth", "1", "--batch-size", "1", "--output", filepath.Join(o.Scratch, "c19-bad-"+tag+".r1cs")}, mv...), nil},
			mjob{"gen-test-params/" + tag, append([]string{"gen-test-params", "--tree-depth", "3", "--batch-size", "2"}, mv...), nil},
			mjob{"prove/" + tag, append([]string{"prove", "--keys-file", s0.keys}, mv...), goodDoc},
			mjob{"verify/" + tag, append([]string{"verify", "--keys-file", s0.keys, "--input-hash", hashArg}, mv...), proofDoc},
			mjob{"start/" + tag, append([]string{"start", "--keys-file", s0.keys, "--prover-address", "127.0.0.1:0", "--metrics-address", "127.0.0.1:0"}, mv...), nil},
		)
	}
	empty := filepath.Join(o.Scratch, "c19-empty.ps")
	os.WriteFile(empty, nil, 0o644)
	trunc := filepath.Join(o.Scratch, "c19-trunc.ps")
	if b, err := os.ReadFile(s0.keys); err == nil {
		os.WriteFile(trunc, b[:len(b)/3], 0o644)
	}
	for name, kf := range map[string]string{"missing": filepath.Join(o.Scratch, "does-not-exist.ps"), "directory": o.Scratch, "empty": empty, "truncated": trunc} {
		mjobs = append(mjobs,
			mjob{"prove/keys-" + name, []string{"prove", "--mode", s0.mode, "--keys-file", kf}, goodDoc},
			mjob{"verify/keys-" + name, []string{"verify", "--mode", s0.mode, "--keys-file", kf, "--input-hash", hashArg}, proofDoc},
			mjob{"start/keys-" + name, []string{"start", "--mode", s0.mode, "--keys-file", kf, "--prover-address", "127.0.0.1:0", "--metrics-address", "127.0.0.1:0"}, nil},
			mjob{"export-solidity/keys-" + name, []string{"export-solidity", "--keys-file", kf}, nil},
		)
	}
	cli.ForEach(len(mjobs), 8, func(i int) {
		j := mjobs[i]
		key := "C19/must-fail/" + j.name
		if !run.Wants(key) {
			return
		}
		res := proc.Run(bin, j.in, 45*time.Second, nil, j.args...)
		run.Add("cli_invocations", 1)
		sample := map[string]any{"args": strings.Join(j.args, " "), "exit": res.Exit, "still_running": res.TimedOut}
		bad := res.Exit == 0 || res.TimedOut
		if bad {
			run.Violate(key, fmt.Sprintf("`gnark-mbu %s` ends with exit=%d (still running after 45s: %v); a bad mode / unreadable keys file must end in a non-zero exit", strings.Join(j.args, " "), res.Exit, res.TimedOut), sample)
		}
		if strings.HasPrefix(j.name, "prove/") && len(bytes.TrimSpace(res.Stdout)) != 0 {
			run.Violate(key+"/stdout", "prove wrote to stdout although it failed", sample)
		}
		run.Case("must-fail/"+strings.Split(j.name, "/")[0], true, key, bad, sample)
	})
	run.Stage("must-fail")
	// 5. commands sharing files: setup over a path that already holds a keys file
	if run.Wants("C19/shared-path") && len(live) >= 2 && live[0].d == live[1].d && live[0].b == live[1].b && live[0].mode != live[1].mode {
		a, b := live[0], live[1] // a's keys are copied to K, then K is set up again for b's mode
		K := filepath.Join(o.Scratch, "c19-shared.ps")
		if data, err := os.ReadFile(a.keys); err == nil {
			os.WriteFile(K, data, 0o644)
			// an unknown mode must fail even though a valid keys file sits at the output path
			res := proc.Run(bin, nil, 10*time.Minute, nil, "setup", "--mode", "bogus", "--tree-depth", fmt.Sprint(a.d), "--batch-size", fmt.Sprint(a.b), "--output", K)
			run.Add("cli_invocations", 1)
			if res.Exit == 0 {
				run.Violate("C19/shared-path/bogus-mode", "setup with an unknown mode exits 0 when the output path already holds a keys file", nil)
			}
			run.Case("must-fail/setup-over-existing", true, "bogus", res.Exit == 0, map[string]any{"exit": res.Exit})
			res = proc.Run(bin, nil, 30*time.Minute, nil, "setup", "--mode", b.mode, "--tree-depth", fmt.Sprint(b.d), "--batch-size", fmt.Sprint(b.b), "--output", K)
			run.Add("cli_invocations", 1)
			if res.Exit != 0 {
				run.Violate("C19/shared-path/setup", fmt.Sprintf("setup for %s over an existing %s keys file exits %d", b.mode, a.mode, res.Exit), nil)
			} else {
				gp := proc.Run(bin, nil, 5*time.Minute, nil, "gen-test-params", "--mode", b.mode, "--tree-depth", fmt.Sprint(b.d), "--batch-size", fmt.Sprint(b.b))
				pr := proc.Run(bin, gp.Stdout, 10*time.Minute, nil, "prove", "--mode", b.mode, "--keys-file", K)
				run.Add("cli_invocations", 2)
				okPipe := gp.Exit == 0 && pr.Exit == 0
				if !okPipe {
					run.Violate("C19/shared-path/pipeline", fmt.Sprintf("after `setup --mode %s` over a path that held %s keys, gen-test-params | prove --mode %s fails (exit %d): the pipeline does not compose through shared files: %s", b.mode, a.mode, b.mode, pr.Exit, tailOf(pr.Stderr)), nil)
				}
				run.Case("pipeline/setup-over-existing-keys", true, "shared", okPipe, map[string]any{"first_mode": a.mode, "second_mode": b.mode, "depth": b.d, "batch": b.b})
			}
			os.Remove(K)
		}
	}
	run.Stage("shared-path")
	for _, s := range live {
		os.Remove(s.keys)
	}
	run.Require("CLI invocations", run.GetInt("cli_invocations"), 60)
	run.Require("valid proofs produced by the CLI", run.ClassTally("prove/valid-independent-document").Accepted+run.ClassTally("pipeline/gen-test-params|prove").Accepted, 4)
	run.Require("re-randomised derivatives with a short coordinate verified", run.GetInt("derivatives_with_short_coordinate"), 5)
	run.Require("verify on valid proofs", run.ClassTally("verify/cli-proof-own-hash").Cases+run.ClassTally("verify/rerandomised-valid-proof").Cases, 10)
	run.Require("must-fail invocations", run.ClassTally("must-fail/prove").Cases+run.ClassTally("must-fail/verify").Cases+run.ClassTally("must-fail/start").Cases, 20)
}

func coordsDoc(c [8]*big.Int) []byte {
	s := make([]string, 8)
	for i := range c {
		s[i] = "0x" + c[i].Text(16)
		if c[i].Sign() < 0 {
			s[i] = "-0x" + new(big.Int).Neg(c[i]).Text(16)
		}
	}
	return ref.MustJSON(map[string]any{"ar": []string{s[0], s[1]}, "bs": [][]string{{s[2], s[3]}, {s[4], s[5]}}, "krs": []string{s[6], s[7]}})
}
