// climon: monitors that drive the real gnark-mbu binary in fresh processes and
// compare its artefacts (C12 C17 C19).
package main

import (
	"fmt"
	"os"
	"path/filepath"
	"strings"

	"github.com/consensys/gnark/logger"
	"github.com/rs/zerolog"

	"worldcoin/gnark-mbu/logging"

	"verifmon/internal/cli"
	"verifmon/internal/evid"
)

var monitors = map[string]func(*cli.Opts, *evid.Run){"C12": runC12, "C17": runC17, "C19": runC19}

func main() {
	logger.Disable()
	*logging.Logger() = zerolog.Nop()
	levels := map[string]string{"C12": "exploration", "C17": "exploration", "C19": "exploration"}
	o, run := cli.Parse(levels)
	cli.Guard("monitor body", func() { monitors[o.Prop](o, run) })
	// race reports of this very process (C12 thorough is built with -race)
	if dir := os.Getenv("VERIF_RACE_LOG_DIR"); dir != "" {
		n := 0
		files, _ := filepath.Glob(filepath.Join(dir, "race.*"))
		for _, f := range files {
			b, _ := os.ReadFile(f)
			n += strings.Count(string(b), "WARNING: DATA RACE")
		}
		run.Set("race_reports", n)
		if n > 0 {
			run.Violate(o.Prop+"/race", fmt.Sprintf("%d data race report(s) while compiling concurrently", n), map[string]any{"logs": files})
		}
	}
	os.Exit(run.Finish())
}
