// provmon: in-process monitors that drive the real prover library
// (C07 C08 C10 C11 C15 C16 C18).
package main

import (
	"fmt"
	"os"

	"github.com/consensys/gnark/logger"
	"github.com/rs/zerolog"

	"worldcoin/gnark-mbu/logging"

	"verifmon/internal/cli"
	"verifmon/internal/evid"
)

var monitors = map[string]func(*cli.Opts, *evid.Run){
	"C07": runC07, "C08": runC08, "C10": runC10, "C11": runC11,
	"C15": runC15, "C16": runC16, "C18": runC18,
}

func main() {
	logger.Disable()
	*logging.Logger() = zerolog.Nop()
	levels := map[string]string{}
	for k := range monitors {
		levels[k] = "exploration"
	}
	levels["C15"] = "fault_enumeration"
	o, run := cli.Parse(levels)
	defer func() {
		if p := recover(); p != nil {
			fmt.Fprintf(os.Stderr, "monitor panic: %v\n", p)
			panic(p)
		}
	}()
	cli.Guard("monitor body", func() { monitors[o.Prop](o, run) })
	os.Exit(run.Finish())
}
