package main

import (
	"bytes"
	"math/big"

	"github.com/consensys/gnark/frontend"

	"worldcoin/gnark-mbu/prover"

	"verifmon/internal/cases"
)

func fv(vs []*big.Int) []frontend.Variable {
	out := make([]frontend.Variable, len(vs))
	for i, v := range vs {
		out[i] = v
	}
	return out
}

func fvv(vs [][]*big.Int) [][]frontend.Variable {
	out := make([][]frontend.Variable, len(vs))
	for i, v := range vs {
		out[i] = fv(v)
	}
	return out
}

func insFull(c *cases.Ins, hash *big.Int) frontend.Circuit {
	return &prover.InsertionMbuCircuit{InputHash: hash, StartIndex: c.Start, PreRoot: c.Pre, PostRoot: c.Post, IdComms: fv(c.Ids), MerkleProofs: fvv(c.Proofs)}
}

func delFull(c *cases.Del, hash *big.Int) frontend.Circuit {
	return &prover.DeletionMbuCircuit{InputHash: hash, DeletionIndices: fv(c.Indices), PreRoot: c.Pre, PostRoot: c.Post, IdComms: fv(c.Items), MerkleProofs: fvv(c.Proofs)}
}

func trimErr(err error) string {
	if err == nil {
		return "<nil>"
	}
	s := err.Error()
	if len(s) > 300 {
		s = s[:300] + "…"
	}
	return s
}

func lastLine(b []byte) string {
	b = bytes.TrimSpace(b)
	if i := bytes.LastIndexByte(b, '\n'); i >= 0 {
		b = b[i+1:]
	}
	if len(b) > 400 {
		b = b[len(b)-400:]
	}
	return string(b)
}
