package main

import (
	"bytes"
	"encoding/json"
	"fmt"
	"math/big"

	"github.com/consensys/gnark/frontend"

	"worldcoin/gnark-mbu/prover"

	"verifmon/internal/cases"
)

func fv(vs []*big.Int) []frontend.Variable {
	out := make([]frontend.Variable, len(vs))
	for i, v := range vs {
		out[i] = v
	}
	return out
}

func fvv(vs [][]*big.Int) [][]frontend.Variable {
	out := make([][]frontend.Variable, len(vs))
	for i, v := range vs {
		out[i] = fv(v)
	}
	return out
}

func insFull(c *cases.Ins, hash *big.Int) frontend.Circuit {
	return &prover.InsertionMbuCircuit{InputHash: hash, StartIndex: c.Start, PreRoot: c.Pre, PostRoot: c.Post, IdComms: fv(c.Ids), MerkleProofs: fvv(c.Proofs)}
}

func delFull(c *cases.Del, hash *big.Int) frontend.Circuit {
	return &prover.DeletionMbuCircuit{InputHash: hash, DeletionIndices: fv(c.Indices), PreRoot: c.Pre, PostRoot: c.Post, IdComms: fv(c.Items), MerkleProofs: fvv(c.Proofs)}
}

func trimErr(err error) string {
	if err == nil {
		return "<nil>"
	}
	s := err.Error()
	if len(s) > 300 {
		s = s[:300] + "…"
	}
	return s
}

func lastLine(b []byte) string {
	b = bytes.TrimSpace(b)
	if i := bytes.LastIndexByte(b, '\n'); i >= 0 {
		b = b[i+1:]
	}
	if len(b) > 400 {
		b = b[len(b)-400:]
	}
	return string(b)
}

// panicError marks a panic of the code under observation caught at the call boundary: the monitors report it as a
// violation of the property being decided (a codec that panics neither round-trips nor "fails with an error").
type panicError struct{ v any }

func (p panicError) Error() string {
	return fmt.Sprintf("PANIC in the code under observation: %v", p.v)
}

func safeUnmarshal(data []byte, v any) (err error) {
	defer func() {
		if r := recover(); r != nil {
			err = panicError{r}
		}
	}()
	return json.Unmarshal(data, v)
}

func safeMarshal(v any) (out []byte, err error) {
	defer func() {
		if r := recover(); r != nil {
			out, err = nil, panicError{r}
		}
	}()
	return json.Marshal(v)
}

func isPanic(err error) bool { _, ok := err.(panicError); return ok }
