package main

import (
	"bytes"
	"fmt"
	"os"
	"path/filepath"
	"sort"
	"syscall"
	"sync"
	"sync/atomic"
	"time"

	"worldcoin/gnark-mbu/prover"

	"verifmon/internal/cli"
	"verifmon/internal/evid"
	"verifmon/internal/gen"
	"verifmon/internal/proc"
	"verifmon/internal/sysutil"
)

// fileReaderMu serialises calls of the file-based reader: concurrency is not in C15's quantifier, and
// the monitor must not manufacture interleavings of its own.
var fileReaderMu sync.Mutex

// readOutcome runs a read under recover() and a watchdog.
func readOutcome(read func() error) (outcome string, detail string) {
	return readOutcomeWithin(5*time.Minute, read)
}

// hangSeen is set once a read did not return: later reads through the same entry point are skipped (each
// would cost a full watchdog period, and the spinning reader keeps a core busy).
var hangSeen atomic.Bool

func readOutcomeWithin(watchdog time.Duration, read func() error) (outcome string, detail string) {
	done := make(chan [2]string, 1)
	go func() {
		defer func() {
			if p := recover(); p != nil {
				done <- [2]string{"panic", fmt.Sprint(p)}
			}
		}()
		if err := read(); err != nil {
			done <- [2]string{"error", err.Error()}
		} else {
			done <- [2]string{"loaded", ""}
		}
	}()
	select {
	case r := <-done:
		return r[0], r[1]
	case <-time.After(watchdog):
		hangSeen.Store(true)
		return "hang", fmt.Sprintf("no result after %v", watchdog)
	}
}

func runC15(o *cli.Opts, run *evid.Run) {
	run.Rule("one case = one strict prefix of a valid proving-system file fed to UnsafeReadFrom (and a subset through ReadSystemFromFile / the CLI): the outcome must be an error, never loaded/panic/hang. " +
		"Small independent systems: EVERY byte offset 0..len-1 in both formats (exhaustive for those files); real systems: offsets 0..9, every section boundary +-{0,1,2}, len-1..len-3 and PRNG offsets; non-trivial = distinct (file, format, offset)")
	run.Assume("a truncated file is a strict prefix (no corruption inside the prefix)", "small systems share the file layout of real ones (same writers/readers)")
	nSmall := o.Pick(3, 20)
	exhaustiveFiles := 0
	cli.ForEach(nSmall, 0, func(i int) {
		key := fmt.Sprintf("C15/small/%d", i)
		if !run.Wants(key) && run.Only != "" && len(run.Only) < len(key) {
			return
		}
		r := gen.RNG(o.Seed, key)
		ps, _, err := smallSystem(r)
		if err != nil {
			run.Violate(key, "cannot build a small system: "+err.Error(), nil)
			return
		}
		for _, raw := range []bool{true, false} {
			data, _, err := serialise(ps, raw)
			if err != nil {
				run.Violate(key, "write failed: "+err.Error(), nil)
				continue
			}
			// sanity: the complete file loads
			var full prover.ProvingSystem
			if out, det := readOutcome(func() error { _, e := full.UnsafeReadFrom(bytes.NewReader(data)); return e }); out != "loaded" {
				run.Violate(fmt.Sprintf("%s/%s/full", key, fmtName(raw)), "the complete file does not load: "+out+" "+det, nil)
				continue
			}
			// … and through the file-based reader (a process that has loaded a complete file must still reject a prefix later)
			fullPath := filepath.Join(o.Scratch, fmt.Sprintf("full-%d-%v.ps", i, raw))
			os.WriteFile(fullPath, data, 0o644)
			fileReaderMu.Lock()
			out, det := readOutcome(func() error { _, e := prover.ReadSystemFromFile(fullPath); return e })
			fileReaderMu.Unlock()
			if out != "loaded" {
				run.Violate(fmt.Sprintf("%s/%s/full-file", key, fmtName(raw)), "the complete file does not load through ReadSystemFromFile: "+out+" "+det, nil)
			}
			os.Remove(fullPath)
			bounds := sectionBoundaries(ps, raw)
			for off := 0; off < len(data); off++ {
				ck := fmt.Sprintf("%s/%s/cut=%d", key, fmtName(raw), off)
				if !run.Wants(ck) {
					continue
				}
				var got prover.ProvingSystem
				if hangSeen.Load() {
					continue
				}
				out, det := readOutcomeWithin(time.Minute, func() error { _, e := got.UnsafeReadFrom(bytes.NewReader(data[:off])); return e })
				section := sectionOf(int64(off), bounds)
				sample := map[string]any{"format": fmtName(raw), "file_bytes": len(data), "cut_at": off, "section": section, "outcome": out}
				if out != "error" {
					run.Violate(ck, fmt.Sprintf("%s file of %d bytes cut at %d (%s): outcome %s %s", fmtName(raw), len(data), off, section, out, det), sample)
				}
				run.Case("small/"+fmtName(raw)+"/"+section, true, ck, out == "loaded", sample)
				if off%16 == 5 || off < 12 { // also through the file-based reader (every cut inside and just after the header)
					path := filepath.Join(o.Scratch, fmt.Sprintf("cut-%d-%v-%d", i, raw, off))
					os.WriteFile(path, data[:off], 0o644)
					if hangSeen.Load() {
						os.Remove(path)
						continue
					}
					fileReaderMu.Lock()
					out2, det2 := readOutcomeWithin(time.Minute, func() error { _, e := prover.ReadSystemFromFile(path); return e })
					fileReaderMu.Unlock()
					os.Remove(path)
					if out2 != "error" {
						run.Violate(ck+"/file", fmt.Sprintf("ReadSystemFromFile on a %s file cut at %d (%s): outcome %s %s", fmtName(raw), off, section, out2, det2), sample)
					}
					run.Case("small/file-reader", true, ck, out2 == "loaded", nil)
				}
			}
			exhaustiveFiles++
		}
	})
	// the same prefixes delivered SLOWLY (an interrupted download still trickling in, slow storage): the bytes of the
	// prefix arrive through a named pipe, then nothing for 12 s (thorough 35 s), then end-of-file. How long a load takes
	// must not change its outcome. All cases run at once, so the stage costs one stall.
	if run.Wants("C15/slow") && !hangSeen.Load() {
		stall := time.Duration(o.Pick(12, 35)) * time.Second
		r := gen.RNG(o.Seed, "C15/slow")
		if ps, _, err := smallSystem(r); err == nil {
			type slowCase struct {
				raw  bool
				off  int
				data []byte
			}
			var cases []slowCase
			for _, raw := range []bool{true, false} {
				data, _, err := serialise(ps, raw)
				if err != nil {
					continue
				}
				b := sectionBoundaries(ps, raw)
				offs := []int{4, 8, len(data) / 3, len(data) - 1, len(data)}
				for _, x := range b {
					offs = append(offs, int(x), int(x)+1+r.Intn(16))
				}
				for _, off := range offs {
					if off >= 0 && off <= len(data) {
						cases = append(cases, slowCase{raw, off, data})
					}
				}
			}
			cli.ForEach(len(cases), len(cases), func(ci int) {
				c := cases[ci]
				ck := fmt.Sprintf("C15/slow/%s/cut=%d", fmtName(c.raw), c.off)
				path := filepath.Join(o.Scratch, fmt.Sprintf("slow-%d.fifo", ci))
				if err := syscall.Mkfifo(path, 0o644); err != nil {
					return
				}
				defer os.Remove(path)
				wdone := make(chan struct{})
				go func() {
					defer close(wdone)
					w, err := os.OpenFile(path, os.O_WRONLY, 0)
					if err != nil {
						return
					}
					w.Write(c.data[:c.off])
					time.Sleep(stall)
					w.Close()
				}()
				out, det := readOutcomeWithin(stall+2*time.Minute, func() error { _, e := prover.ReadSystemFromFile(path); return e })
				if d, e := os.OpenFile(path, os.O_RDONLY|syscall.O_NONBLOCK, 0); e == nil {
					<-wdone
					d.Close()
				} else {
					<-wdone
				}
				want := "error"
				if c.off == len(c.data) {
					want = "loaded" // control: the complete file, delivered just as slowly, loads
				}
				sample := map[string]any{"format": fmtName(c.raw), "file_bytes": len(c.data), "cut_at": c.off, "stall_s": stall.Seconds(), "outcome": out}
				if out != want {
					run.Violate(ck, fmt.Sprintf("%s file of %d bytes, first %d bytes delivered and end-of-file %v later: outcome %s %s (expected %s)", fmtName(c.raw), len(c.data), c.off, stall, out, det, want), sample)
				}
				run.Case("slow-delivery/"+fmtName(c.raw), true, ck, out == "loaded", sample)
			})
		}
	}
	run.Stage("slow")
	run.Set("files_with_every_offset_cut", exhaustiveFiles)
	run.Set("exhaustive", false)
	run.Stage("small")
	// real systems
	modes := []string{"insertion"}
	if o.Thorough() {
		modes = []string{"insertion", "deletion"}
	}
	var cliFiles []string
	var cliFull string
	for _, mode := range modes {
		key := "C15/real/" + mode
		if !run.Wants(key) && run.Only != "" && len(run.Only) < len(key) {
			continue
		}
		ps, err := sysutil.Setup(mode, 3, 2)
		if err != nil {
			run.Violate(key, "setup failed: "+err.Error(), nil)
			continue
		}
		for _, raw := range []bool{true, false} {
			data, _, err := serialise(ps, raw)
			if err != nil {
				run.Violate(key, "write failed: "+err.Error(), nil)
				continue
			}
			r := gen.RNG(o.Seed, key+fmtName(raw))
			bounds := sectionBoundaries(ps, raw)
			offs := map[int64]bool{}
			for i := int64(0); i < 10; i++ {
				offs[i] = true
			}
			for _, b := range bounds {
				for d := int64(-2); d <= 2; d++ {
					offs[b+d] = true
				}
			}
			for d := int64(1); d <= 3; d++ {
				offs[int64(len(data))-d] = true
			}
			for k := 0; k < o.Pick(30, 300); k++ {
				offs[r.Int63n(int64(len(data)))] = true
			}
			for _, unit := range []int64{512, 4 << 10, 32 << 10, 64 << 10, 1 << 20, 4 << 20, 16 << 20} {
				for m := int64(1); m <= 3; m++ {
					offs[unit*m] = true // buffer-size multiples
				}
			}
			for k := 0; k < o.Pick(10, 100); k++ { // concentrate on the last section too
				offs[bounds[3]+r.Int63n(int64(len(data))-bounds[3])] = true
			}
			var list []int64
			for off := range offs {
				if off >= 0 && off < int64(len(data)) {
					list = append(list, off)
				}
			}
			sort.Slice(list, func(i, j int) bool { return list[i] < list[j] })
			cli.ForEach(len(list), 4, func(li int) {
				off := list[li]
				ck := fmt.Sprintf("%s/%s/cut=%d", key, fmtName(raw), off)
				if !run.Wants(ck) || run.Violations() > 40 {
					return // enough witnesses; every accepted prefix of a real file costs a full 85 MB parse
				}
				var got prover.ProvingSystem
				out, det := readOutcome(func() error { _, e := got.UnsafeReadFrom(bytes.NewReader(data[:off])); return e })
				section := sectionOf(off, bounds)
				sample := map[string]any{"mode": mode, "format": fmtName(raw), "file_bytes": len(data), "cut_at": off, "section": section, "outcome": out}
				if out != "error" {
					run.Violate(ck, fmt.Sprintf("real %s %s file of %d bytes cut at %d (%s): outcome %s %s", mode, fmtName(raw), len(data), off, section, out, det), sample)
				}
				run.Case("real/"+fmtName(raw)+"/"+section, true, ck, out == "loaded", sample)
			})
			// the file-based reader: complete file first, then prefixes of it from the same path and from other paths
			{
				fp := filepath.Join(o.Scratch, "c15-real-"+mode+"-"+fmtName(raw)+".ps")
				os.WriteFile(fp, data, 0o644)
				if out, det := readOutcome(func() error { _, e := prover.ReadSystemFromFile(fp); return e }); out != "loaded" {
					run.Violate(key+"/"+fmtName(raw)+"/full-file", "the complete real file does not load through ReadSystemFromFile: "+out+" "+det, nil)
				}
				fileCuts := []int64{bounds[2] / 2, bounds[3] + 5, int64(len(data)) - 1, 3}
				// cuts at buffer-size multiples (what an interrupted copy or download through a chunked reader leaves
				// behind, and where a reader that fetches the file in fixed-size pieces meets end-of-file exactly at a
				// piece boundary)
				for _, unit := range []int64{4 << 10, 64 << 10, 1 << 20, 4 << 20, 16 << 20} {
					for _, m := range []int64{1, 2, 3} {
						if c := unit * m; c < int64(len(data)) {
							fileCuts = append(fileCuts, c)
						}
					}
				}
				if c := int64(len(data)) &^ (4<<20 - 1); c > 0 && c < int64(len(data)) {
					fileCuts = append(fileCuts, c) // the last 4 MiB multiple inside the file
				}
				for k, off := range fileCuts {
					if hangSeen.Load() {
						break
					}
					path := fp
					if k%2 == 1 {
						path = fp + ".cut"
					}
					os.WriteFile(path, data[:off], 0o644)
					out, det := readOutcome(func() error { _, e := prover.ReadSystemFromFile(path); return e })
					if out != "error" {
						run.Violate(fmt.Sprintf("%s/%s/file-cut=%d", key, fmtName(raw), off), fmt.Sprintf("ReadSystemFromFile on a real %s file cut at %d after the complete file had been loaded: outcome %s %s", fmtName(raw), off, out, det), nil)
					}
					run.Case("real/file-reader-after-full-load", true, fmt.Sprint(key, raw, off), out == "loaded", map[string]any{"mode": mode, "format": fmtName(raw), "cut_at": off, "outcome": out})
				}
				os.Remove(fp)
				os.Remove(fp + ".cut")
			}
			if raw && mode == "insertion" {
				cliFull = filepath.Join(o.Scratch, "c15-full.ps")
				os.WriteFile(cliFull, data, 0o644)
				for name, off := range map[string]int64{"header": 5, "mid-pk": bounds[2] / 2, "pk-vk-boundary": bounds[2], "vk-cs-boundary": bounds[3], "mid-cs": (bounds[3] + int64(len(data))) / 2, "one-short": int64(len(data)) - 1} {
					p := filepath.Join(o.Scratch, "c15-cut-"+name+".ps")
					os.WriteFile(p, data[:off], 0o644)
					cliFiles = append(cliFiles, p)
				}
			}
		}
	}
	run.Stage("real")
	c15CLI(o, run, cliFiles, cliFull)
	run.Stage("cli")
	run.Require("files with every offset cut", exhaustiveFiles, 4)
	run.Require("cuts in the constraint-system section", run.ClassTally("small/raw/cs").Cases+run.ClassTally("small/compressed/cs").Cases, 100)
	run.Require("cuts of real files", run.ClassTally("real/raw/pk").Cases+run.ClassTally("real/raw/cs").Cases+run.ClassTally("real/raw/vk").Cases, 20)
	run.Require("CLI runs on truncated files", run.GetInt("cli_runs"), 8)
}

func sectionOf(off int64, b []int64) string {
	switch {
	case off < b[1]:
		return "header"
	case off < b[2]:
		return "pk"
	case off < b[3]:
		return "vk"
	}
	return "cs"
}

// c15CLI: the commands that read a keys file must exit non-zero on a truncated
// one, and `start` must not come up.
func c15CLI(o *cli.Opts, run *evid.Run, files []string, full string) {
	if len(files) == 0 || (run.Only != "" && !run.Wants("C15/cli")) {
		return
	}
	bin, err := proc.BuildBinary(o.Out, o.Scratch, o.Repo, false)
	if err != nil {
		run.Violate("C15/cli/build", err.Error(), nil)
		return
	}
	sort.Strings(files)
	type job struct {
		file string
		cmd  string
	}
	var jobs []job
	for _, f := range files {
		for _, c := range []string{"prove", "verify", "export-solidity", "export-vk", "convert-to-raw", "start"} {
			jobs = append(jobs, job{f, c})
		}
	}
	cli.ForEach(len(jobs), 6, func(i int) {
		j := jobs[i]
		name := filepath.Base(j.file)
		key := fmt.Sprintf("C15/cli/%s/%s", j.cmd, name)
		var res proc.Result
		switch j.cmd {
		case "prove":
			res = proc.Run(bin, []byte("{}"), 3*time.Minute, nil, "prove", "--mode", "insertion", "--keys-file", j.file)
		case "verify":
			res = proc.Run(bin, []byte("{}"), 3*time.Minute, nil, "verify", "--mode", "insertion", "--keys-file", j.file, "--input-hash", "0x1")
		case "export-solidity":
			res = proc.Run(bin, nil, 3*time.Minute, nil, "export-solidity", "--keys-file", j.file, "--output", filepath.Join(o.Scratch, "sol-"+name))
		case "export-vk":
			res = proc.Run(bin, nil, 3*time.Minute, nil, "export-vk", "--keys-file", j.file, "--output", filepath.Join(o.Scratch, "vk-"+name))
		case "convert-to-raw":
			res = proc.Run(bin, nil, 3*time.Minute, nil, "convert-to-raw", "--input", j.file, "--output", filepath.Join(o.Scratch, "conv-"+name))
		case "start":
			ports := proc.FreePorts(2)
			// a server that loaded a half file would stay up: 20 s is far beyond the load time of this file
			res = proc.Run(bin, nil, 20*time.Second, nil, "start", "--mode", "insertion", "--keys-file", j.file,
				"--prover-address", fmt.Sprintf("127.0.0.1:%d", ports[0]), "--metrics-address", fmt.Sprintf("127.0.0.1:%d", ports[1]))
		}
		run.Add("cli_runs", 1)
		sample := map[string]any{"command": j.cmd, "file": name, "exit": res.Exit, "timed_out": res.TimedOut}
		// a command still running after its watchdog (20 s for start, 3 min otherwise: >100x the time a complete
		// file of this size takes) either went on to serve or hangs on the truncated file: both are violations
		bad := res.Exit == 0 || res.TimedOut
		if marks := proc.CrashMarksIn(string(res.Stderr) + string(res.Stdout)); len(marks) > 0 {
			bad = true
			run.Violate(key+"/panic", fmt.Sprintf("`gnark-mbu %s` on truncated keys file %s crashes instead of failing with an error: %v", j.cmd, name, marks), map[string]any{"stderr_tail": tailOf(string(res.Stderr), 1500)})
		}
		if res.Exit == 0 || res.TimedOut {
			run.Violate(key, fmt.Sprintf("`gnark-mbu %s` on truncated keys file %s: exit=%d still_running_after_watchdog=%v", j.cmd, name, res.Exit, res.TimedOut), sample)
		}
		run.Case("cli/"+j.cmd, true, key, bad, sample)
	})
}

func tailOf(s string, n int) string {
	if len(s) > n {
		return s[len(s)-n:]
	}
	return s
}
