package main

import (
	"fmt"
	"math/big"
	"math/rand"
	"time"

	"worldcoin/gnark-mbu/prover"

	"verifmon/internal/cases"
	"verifmon/internal/cli"
	"verifmon/internal/conv"
	"verifmon/internal/evid"
	"verifmon/internal/gen"
	"verifmon/internal/proc"
	"verifmon/internal/ref"
	"verifmon/internal/rmon"
)

func c08Value(r *rand.Rand) (*big.Int, string) {
	switch r.Intn(8) {
	case 0:
		return big.NewInt(0), "zero"
	case 1:
		return big.NewInt(int64(1 + r.Intn(255))), "small"
	case 2:
		return new(big.Int).Sub(ref.R, big.NewInt(1)), "r-1"
	case 3, 4, 5:
		k := 1 + r.Intn(31)
		return gen.WithLeadingZeroBytes(r, k, ref.R), fmt.Sprintf("lz%d", k)
	}
	return gen.Below(r, ref.R), "uniform"
}

func runC08(o *cli.Opts, run *evid.Run) {
	run.Rule("one case = one call of ComputeInputHashInsertion/Deletion on a PRNG parameter set (roots/commitments of every magnitude class incl. exactly k leading zero bytes for k=1..31, indices 0/1/2^31/2^32-1/random, batch 0..40) compared with the independent on-chain packing + Keccak; " +
		"a sequential stream of calls in one goroutine exposes state carried between calls; batch-valid sets with short roots are solved in the full circuit with the helper's hash; `gnark-mbu gen-test-params` is run as a child for a sweep of (mode, depth, batch), its output parsed independently, hash and batch validity checked, cheap dimensions solved; non-trivial = distinct parameter set")
	run.Assume("values in range [0, r) (the property's scope)", "hash equality is taken modulo r (the helper returns the 256-bit digest, the circuit and the verifier reduce it)")
	n := o.Pick(20000, 1000000)
	one := func(key string, r *rand.Rand) {
		batch := r.Intn(41)
		switch r.Intn(40) {
		case 0, 1, 2, 3:
			batch = 0
		case 4:
			batch = []int{100, 255, 256, 257, 1000, 1023, 1024, 4096}[r.Intn(8)] // production-size batches
		}
		var classes []string
		val := func() *big.Int {
			v, c := c08Value(r)
			classes = append(classes, c)
			return v
		}
		if r.Intn(2) == 0 {
			// the InputHash field may hold anything before the call (zero, a stale hash, a value from a decoded document)
			pre := big.NewInt(0)
			if r.Intn(3) == 0 {
				pre = gen.Below(r, ref.R)
			}
			p := &ref.InsParams{InputHash: pre, StartIndex: c16Index(r), Pre: val(), Post: val()}
			for i := 0; i < batch; i++ {
				p.Ids = append(p.Ids, val())
			}
			q := conv.ToRepoIns(p)
			err := q.ComputeInputHashInsertion()
			want := ref.HashToField(ref.PackInsertion(p.StartIndex, p.Pre, p.Post, p.Ids))
			got := new(big.Int).Mod(&q.InputHash, ref.R)
			ok := err == nil && got.Cmp(want) == 0
			sample := map[string]any{"mode": "insertion", "startIndex": p.StartIndex, "preRoot": ref.Num(p.Pre, "hex"), "postRoot": ref.Num(p.Post, "hex"), "batch": batch, "magnitudes": classes[:min(len(classes), 6)], "helper": ref.Num(got, "hex"), "reference": ref.Num(want, "hex")}
			if !ok {
				run.Violate(key, fmt.Sprintf("ComputeInputHashInsertion = %s, on-chain packing gives %s (err=%v)", ref.Num(got, "hex"), ref.Num(want, "hex"), err), sample)
			}
			if q.PreRoot.Cmp(p.Pre) != 0 || q.PostRoot.Cmp(p.Post) != 0 || len(q.IdComms) != batch {
				run.Violate(key+"/mutated", "ComputeInputHashInsertion modified its parameters", sample)
			}
			run.Case("helper/insertion", true, key, ok, sample)
			return
		}
		pre := big.NewInt(0)
		if r.Intn(3) == 0 {
			pre = gen.Below(r, ref.R)
		}
		p := &ref.DelParams{InputHash: pre, Pre: val(), Post: val()}
		for i := 0; i < batch; i++ {
			p.Indices = append(p.Indices, c16Index(r))
		}
		q := conv.ToRepoDel(p)
		err := q.ComputeInputHashDeletion()
		want := ref.HashToField(ref.PackDeletion(p.Indices, p.Pre, p.Post))
		got := new(big.Int).Mod(&q.InputHash, ref.R)
		ok := err == nil && got.Cmp(want) == 0
		sample := map[string]any{"mode": "deletion", "indices": p.Indices, "preRoot": ref.Num(p.Pre, "hex"), "postRoot": ref.Num(p.Post, "hex"), "magnitudes": classes, "helper": ref.Num(got, "hex"), "reference": ref.Num(want, "hex")}
		if !ok {
			run.Violate(key, fmt.Sprintf("ComputeInputHashDeletion = %s, on-chain packing gives %s (err=%v)", ref.Num(got, "hex"), ref.Num(want, "hex"), err), sample)
		}
		run.Case("helper/deletion", true, key, ok, sample)
	}
	// sequential stream first (state carried from one call to the next would show here deterministically)
	seq := o.Pick(4000, 50000)
	for i := 0; i < seq; i++ {
		key := fmt.Sprintf("C08/seq/%d", i)
		if run.Wants(key) {
			one(key, gen.RNG(o.Seed, key))
		}
	}
	run.Set("sequential_calls", seq)
	// one parameter struct refilled for consecutive batches (the way a sequencer loop would use it)
	{
		var ip prover.InsertionParameters
		var dp prover.DeletionParameters
		r := gen.RNG(o.Seed, "C08/reuse")
		for i := 0; i < o.Pick(400, 4000); i++ {
			key := fmt.Sprintf("C08/reuse/%d", i)
			if !run.Wants(key) {
				continue
			}
			pre, _ := c08Value(r)
			post, _ := c08Value(r)
			ok := true
			if i%2 == 0 {
				ip.StartIndex, ip.PreRoot, ip.PostRoot = c16Index(r), *pre, *post
				ip.IdComms = ip.IdComms[:0]
				var ids []*big.Int
				for k := 0; k < r.Intn(5); k++ {
					v, _ := c08Value(r)
					ids = append(ids, v)
					ip.IdComms = append(ip.IdComms, *v)
				}
				ip.ComputeInputHashInsertion()
				want := ref.HashToField(ref.PackInsertion(ip.StartIndex, pre, post, ids))
				if new(big.Int).Mod(&ip.InputHash, ref.R).Cmp(want) != 0 {
					ok = false
					run.Violate(key, fmt.Sprintf("ComputeInputHashInsertion on a reused parameter struct (batch %d of a sequence) = %s, on-chain packing gives %s", i/2, ref.Num(&ip.InputHash, "hex"), ref.Num(want, "hex")), nil)
				}
			} else {
				dp.PreRoot, dp.PostRoot = *pre, *post
				dp.DeletionIndices = dp.DeletionIndices[:0]
				for k := 0; k < r.Intn(5); k++ {
					dp.DeletionIndices = append(dp.DeletionIndices, c16Index(r))
				}
				dp.ComputeInputHashDeletion()
				want := ref.HashToField(ref.PackDeletion(dp.DeletionIndices, pre, post))
				if new(big.Int).Mod(&dp.InputHash, ref.R).Cmp(want) != 0 {
					ok = false
					run.Violate(key, fmt.Sprintf("ComputeInputHashDeletion on a reused parameter struct (batch %d of a sequence) = %s, on-chain packing gives %s", i/2, ref.Num(&dp.InputHash, "hex"), ref.Num(want, "hex")), nil)
				}
			}
			run.Case("helper/reused-struct", true, key, ok, map[string]any{"step": i})
		}
	}
	cli.ForEach(n, 0, func(i int) {
		key := fmt.Sprintf("C08/par/%d", i)
		if run.Wants(key) {
			one(key, gen.RNG(o.Seed, key))
		}
	})
	run.Stage("helpers")
	c08Circuit(o, run)
	run.Stage("circuit")
	c08GenTestParams(o, run)
	run.Stage("gen-test-params")
	run.Require("helper calls", run.ClassTally("helper/insertion").Cases+run.ClassTally("helper/deletion").Cases, 10000)
	run.Require("circuit solves with the helper's hash on short-root batches", run.GetInt("short_root_circuit_solves"), 2)
	run.Require("gen-test-params dimensions", run.GetInt("gen_test_params_runs"), 20)
}

// c08Circuit: batch-valid parameter sets whose pre- or post-root has leading
// zero bytes, hashed by the repository's helper, must satisfy the full circuit.
func c08Circuit(o *cli.Opts, run *evid.Run) {
	insCCS, err1 := prover.BuildR1CSInsertion(3, 2)
	delCCS, err2 := prover.BuildR1CSDeletion(3, 2)
	if err1 != nil || err2 != nil {
		run.Violate("C08/circuit/build", fmt.Sprint("cannot build circuits: ", err1, err2), nil)
		return
	}
	insSys, delSys := rmon.Wrap(insCCS), rmon.Wrap(delCCS)
	k := o.Pick(3, 30)
	cli.ForEach(2*k, 4, func(i int) {
		key := fmt.Sprintf("C08/circuit/%d", i)
		if !run.Wants(key) {
			return
		}
		r := gen.RNG(o.Seed, key)
		short := i%3 != 2 // two thirds of the cases search for a root with leading zero bytes
		for tries := 0; tries < 3000; tries++ {
			if i%2 == 0 {
				c, ok := cases.BN254.Insertion(r, "valid/random-pos", 3, 2)
				if !ok || !c.Valid || (short && c.Pre.BitLen() > 248 && c.Post.BitLen() > 248) {
					continue
				}
				q := conv.ToRepoIns(&ref.InsParams{InputHash: big.NewInt(0), StartIndex: uint32(c.Start.Uint64()), Pre: c.Pre, Post: c.Post, Ids: c.Ids, Proofs: c.Proofs})
				q.ComputeInputHashInsertion()
				h := new(big.Int).Set(&q.InputHash)
				res := insSys.Solve(insFull(c, h), nil)
				if !res.Accepted {
					run.Violate(key, "full insertion circuit rejects a valid batch presented with the helper's hash: "+trimErr(res.Err), c.Describe())
				}
				if c.Pre.BitLen() <= 248 || c.Post.BitLen() <= 248 {
					run.Add("short_root_circuit_solves", 1)
				}
				run.Case("circuit/insertion", true, key, res.Accepted, c.Describe())
				return
			}
			c, ok := cases.BN254.Deletion(r, "valid/members", 3, 2)
			if !ok || !c.Valid || (short && c.Pre.BitLen() > 248 && c.Post.BitLen() > 248) {
				continue
			}
			idx := make([]uint32, len(c.Indices))
			for j, v := range c.Indices {
				idx[j] = uint32(v.Uint64())
			}
			q := conv.ToRepoDel(&ref.DelParams{InputHash: big.NewInt(0), Indices: idx, Pre: c.Pre, Post: c.Post, Ids: c.Items, Proofs: c.Proofs})
			q.ComputeInputHashDeletion()
			h := new(big.Int).Set(&q.InputHash)
			res := delSys.Solve(delFull(c, h), nil)
			if !res.Accepted {
				run.Violate(key, "full deletion circuit rejects a valid batch presented with the helper's hash: "+trimErr(res.Err), c.Describe())
			}
			if c.Pre.BitLen() <= 248 || c.Post.BitLen() <= 248 {
				run.Add("short_root_circuit_solves", 1)
			}
			run.Case("circuit/deletion", true, key, res.Accepted, c.Describe())
			return
		}
	})
}

func c08GenTestParams(o *cli.Opts, run *evid.Run) {
	bin, err := proc.BuildBinary(o.Out, o.Scratch, o.Repo, false)
	if err != nil {
		run.Violate("C08/gen/build", err.Error(), nil)
		return
	}
	type job struct {
		mode string
		d, b int
	}
	var jobs []job
	depths := []int{1, 2, 3, 5, 8, 16, 20, 31, 32}
	batches := []int{1, 2, 4, 16}
	if o.Thorough() {
		depths = nil
		for d := 1; d <= 32; d++ {
			depths = append(depths, d)
		}
		batches = []int{1, 2, 3, 4, 8, 16, 100}
	}
	for _, d := range depths {
		for _, b := range batches {
			if d < 31 && b > 1<<uint(d) {
				continue
			}
			jobs = append(jobs, job{"insertion", d, b})
			if d <= 31 && (d >= 31 || 2*b <= 1<<uint(d)) {
				jobs = append(jobs, job{"deletion", d, b})
			}
		}
	}
	insSys := map[int]*rmon.Sys{}
	delSys := map[int]*rmon.Sys{}
	for _, b := range []int{1, 2} {
		if c, err := prover.BuildR1CSInsertion(3, uint32(b)); err == nil {
			insSys[b] = rmon.Wrap(c)
		}
		if c, err := prover.BuildR1CSDeletion(3, uint32(b)); err == nil {
			delSys[b] = rmon.Wrap(c)
		}
	}
	cli.ForEach(len(jobs), 8, func(ji int) {
		j := jobs[ji]
		key := fmt.Sprintf("C08/gen/%s/d=%d/b=%d", j.mode, j.d, j.b)
		if !run.Wants(key) {
			return
		}
		res := proc.Run(bin, nil, 5*time.Minute, nil, "gen-test-params", "--mode", j.mode, "--tree-depth", fmt.Sprint(j.d), "--batch-size", fmt.Sprint(j.b))
		run.Add("gen_test_params_runs", 1)
		sample := map[string]any{"mode": j.mode, "depth": j.d, "batch": j.b}
		if res.TimedOut {
			run.Inconclusive(key + ": gen-test-params timed out")
			return
		}
		if res.Exit != 0 {
			run.Violate(key, fmt.Sprintf("gen-test-params exits %d: %s", res.Exit, lastLine(res.Stderr)), sample)
			return
		}
		ok := true
		if j.mode == "insertion" {
			p, err := ref.ReadIns(res.Stdout)
			if err != nil {
				run.Violate(key, "gen-test-params output is not a parameter document: "+err.Error(), sample)
				return
			}
			want := ref.HashToField(ref.PackInsertion(p.StartIndex, p.Pre, p.Post, p.Ids))
			if new(big.Int).Mod(p.InputHash, ref.R).Cmp(want) != 0 {
				ok = false
				run.Violate(key+"/hash", fmt.Sprintf("gen-test-params inputHash %s differs from the on-chain packing hash %s", ref.Num(p.InputHash, "hex"), ref.Num(want, "hex")), sample)
			}
			if len(p.Ids) != j.b || !ref.ValidInsertion(ref.H2, ref.R, j.d, new(big.Int).SetUint64(uint64(p.StartIndex)), p.Pre, p.Post, p.Ids, p.Proofs) {
				ok = false
				run.Violate(key+"/batch", "gen-test-params emits a batch that is not a valid insertion", sample)
			}
			if s := insSys[j.b]; s != nil && j.d == 3 {
				c := &cases.Ins{Depth: j.d, Start: new(big.Int).SetUint64(uint64(p.StartIndex)), Pre: p.Pre, Post: p.Post, Ids: p.Ids, Proofs: p.Proofs}
				if r := s.Solve(insFull(c, p.InputHash), nil); !r.Accepted {
					ok = false
					run.Violate(key+"/circuit", "parameters emitted by gen-test-params are not provable: "+trimErr(r.Err), sample)
				}
				run.Add("gen_test_params_solved", 1)
			}
		} else {
			p, err := ref.ReadDel(res.Stdout)
			if err != nil {
				run.Violate(key, "gen-test-params output is not a parameter document: "+err.Error(), sample)
				return
			}
			want := ref.HashToField(ref.PackDeletion(p.Indices, p.Pre, p.Post))
			if new(big.Int).Mod(p.InputHash, ref.R).Cmp(want) != 0 {
				ok = false
				run.Violate(key+"/hash", fmt.Sprintf("gen-test-params inputHash %s differs from the on-chain packing hash %s", ref.Num(p.InputHash, "hex"), ref.Num(want, "hex")), sample)
			}
			idx := make([]*big.Int, len(p.Indices))
			for i, v := range p.Indices {
				idx[i] = new(big.Int).SetUint64(uint64(v))
			}
			if len(p.Ids) != j.b || !ref.ValidDeletion(ref.H2, ref.R, j.d, idx, p.Pre, p.Post, p.Ids, p.Proofs) {
				ok = false
				run.Violate(key+"/batch", "gen-test-params emits a batch that is not a valid deletion", sample)
			}
			if s := delSys[j.b]; s != nil && j.d == 3 {
				c := &cases.Del{Depth: j.d, Indices: idx, Pre: p.Pre, Post: p.Post, Items: p.Ids, Proofs: p.Proofs}
				if r := s.Solve(delFull(c, p.InputHash), nil); !r.Accepted {
					ok = false
					run.Violate(key+"/circuit", "parameters emitted by gen-test-params are not provable: "+trimErr(r.Err), sample)
				}
				run.Add("gen_test_params_solved", 1)
			}
		}
		run.Case("gen-test-params/"+j.mode, true, key, ok, sample)
	})
}
