package main

import (
	"fmt"
	"math/big"
	"sync"

	"github.com/consensys/gnark-crypto/ecc/bn254"
	"github.com/consensys/gnark-crypto/ecc/bn254/fp"

	"worldcoin/gnark-mbu/prover"

	"verifmon/internal/cli"
	"verifmon/internal/conv"
	"verifmon/internal/evid"
	"verifmon/internal/gen"
	"verifmon/internal/ref"
	"verifmon/internal/sysutil"
)

// smallG1 finds curve points y^2 = x^3 + 3 with tiny x (so A.x / C.x are one byte long).
func smallG1(n int) []bn254.G1Affine {
	var out []bn254.G1Affine
	var three fp.Element
	three.SetUint64(3)
	for x := uint64(1); len(out) < n && x < 100000; x++ {
		var fx, rhs, y fp.Element
		fx.SetUint64(x)
		rhs.Square(&fx).Mul(&rhs, &fx).Add(&rhs, &three)
		if y.Sqrt(&rhs) == nil {
			continue
		}
		var p bn254.G1Affine
		p.X, p.Y = fx, y
		if p.IsOnCurve() {
			out = append(out, p)
			var q bn254.G1Affine
			q.Neg(&p)
			out = append(out, q)
		}
	}
	return out
}

// g1WithXNear finds a curve point whose x coordinate is the first valid one at or above start.
func g1WithXNear(start *big.Int) (bn254.G1Affine, bool) {
	var three fp.Element
	three.SetUint64(3)
	x := new(big.Int).Set(start)
	for tries := 0; tries < 200; tries++ {
		var fx, rhs, y fp.Element
		fx.SetBigInt(x)
		rhs.Square(&fx).Mul(&rhs, &fx).Add(&rhs, &three)
		if y.Sqrt(&rhs) != nil {
			var pt bn254.G1Affine
			pt.X, pt.Y = fx, y
			if pt.IsOnCurve() {
				return pt, true
			}
		}
		x.Add(x, big.NewInt(1))
	}
	return bn254.G1Affine{}, false
}

type c10Proof struct {
	pt    ref.Points
	hash  *big.Int // nil for synthetic (not valid) proofs
	kind  string
	label string
}

func runC10(o *cli.Opts, run *evid.Run) {
	run.Rule("one case = one proof pushed through safeMarshal(&prover.Proof) -> independent reader (8 EVM-order coordinates must equal the points read by reflection) -> json.Unmarshal (must give the same points; valid proofs must still verify), and through documents written by an independent codec (minimal and zero-padded hex); " +
		"proofs: real Groth16 proofs, thousands of re-randomised valid derivatives (about 15% have a coordinate shorter than 32 bytes), synthetic proofs from curve points with tiny coordinates; a sequential stream precedes the parallel sweep; non-trivial = distinct proof")
	run.Assume("EIP-197 order A.x A.y B.x1 B.x0 B.y1 B.y0 C.x C.y", "gnark-crypto point arithmetic for re-randomisation and reflection on gnark's proof struct")
	ps, err := sysutil.Setup("insertion", 3, 2)
	if err != nil {
		run.Violate("C10/setup", "SetupInsertion(3,2) failed: "+err.Error(), nil)
		return
	}
	run.Stage("setup")
	delta := ref.VKDelta(ps.VerifyingKey)
	nReal := o.Pick(3, 30)
	nDeriv := o.Pick(1500, 10000)
	var proofs []c10Proof
	var mu sync.Mutex
	cli.ForEach(nReal, 4, func(i int) {
		key := fmt.Sprintf("C10/real/%d", i)
		r := gen.RNG(o.Seed, key)
		c := sysutil.ValidIns(r, 3, 2)
		p := sysutil.InsParams(c)
		proof, err := ps.ProveInsertion(conv.ToRepoIns(p))
		if err != nil {
			run.Violate(key, "ProveInsertion failed on a valid batch: "+err.Error(), c.Describe())
			return
		}
		pt := ref.GetPoints(proof.Proof)
		if err := sysutil.Verify(pt, ps.VerifyingKey, p.InputHash); err != nil {
			run.Violate(key, "fresh proof does not verify: "+err.Error(), c.Describe())
			return
		}
		local := []c10Proof{{pt, p.InputHash, "real", key}}
		for k := 0; k < nDeriv; k++ {
			d := ref.Rerandomise(pt, delta, r)
			local = append(local, c10Proof{d, p.InputHash, "rerandomised", fmt.Sprintf("%s/d%d", key, k)})
		}
		mu.Lock()
		proofs = append(proofs, local...)
		mu.Unlock()
	})
	run.Stage("prove+rerandomise")
	// synthetic: tiny G1 points for A and C, B = multiples of the G2 generator
	_, _, g1, g2 := bn254.Generators()
	small := append([]bn254.G1Affine{g1}, smallG1(o.Pick(40, 400))...)
	for i, a := range small {
		var b bn254.G2Affine
		b.ScalarMultiplication(&g2, big.NewInt(int64(1+i%7)))
		cpt := small[(i*7+3)%len(small)]
		proofs = append(proofs, c10Proof{ref.Points{A: a, B: b, C: cpt}, nil, "synthetic", fmt.Sprintf("C10/synthetic/%d", i)})
	}
	// the identity (point at infinity) in each position: its coordinates are exactly zero
	{
		var b bn254.G2Affine
		b.ScalarMultiplication(&g2, big.NewInt(3))
		proofs = append(proofs,
			c10Proof{ref.Points{A: bn254.G1Affine{}, B: b, C: small[1]}, nil, "synthetic-identity", "C10/identity/A"},
			c10Proof{ref.Points{A: small[2], B: bn254.G2Affine{}, C: small[1]}, nil, "synthetic-identity", "C10/identity/B"},
			c10Proof{ref.Points{A: small[2], B: b, C: bn254.G1Affine{}}, nil, "synthetic-identity", "C10/identity/C"},
			c10Proof{ref.Points{A: bn254.G1Affine{}, B: bn254.G2Affine{}, C: bn254.G1Affine{}}, nil, "synthetic-identity", "C10/identity/ABC"})
	}
	// coordinates of every bit length 1..254 (x = 2^(k-1) + small): machine-word boundaries (63/64/65 bits …) included
	for k := 1; k <= 253; k++ {
		pt, ok := g1WithXNear(new(big.Int).Lsh(big.NewInt(1), uint(k-1)))
		if !ok {
			continue
		}
		var b bn254.G2Affine
		b.ScalarMultiplication(&g2, big.NewInt(int64(2+k%5)))
		other := small[k%len(small)]
		if k%2 == 0 {
			proofs = append(proofs, c10Proof{ref.Points{A: pt, B: b, C: other}, nil, "synthetic-bitlen", fmt.Sprintf("C10/bitlen/%d", k)})
		} else {
			proofs = append(proofs, c10Proof{ref.Points{A: other, B: b, C: pt}, nil, "synthetic-bitlen", fmt.Sprintf("C10/bitlen/%d", k)})
		}
	}
	check := func(p c10Proof) {
		if !run.Wants(p.label) {
			return
		}
		ok := true
		want := p.pt.Coords()
		short := p.pt.ShortCoords()
		sample := map[string]any{"kind": p.kind, "short_coordinates": short, "A.x": "0x" + want[0].Text(16), "C.y": "0x" + want[7].Text(16)}
		fail := func(sub, what string, w any) {
			ok = false
			run.Violate(p.label+"/"+sub, what, w)
		}
		if p.hash != nil && p.kind == "rerandomised" {
			if err := sysutil.Verify(p.pt, ps.VerifyingKey, p.hash); err != nil {
				fail("gen", "monitor bug: re-randomised proof does not verify: "+err.Error(), sample)
				return
			}
		}
		text, err := safeMarshal(&prover.Proof{Proof: p.pt.ToProof()})
		if err != nil {
			fail("marshal", "Marshal failed: "+err.Error(), sample)
			return
		}
		got, err := ref.ReadProofDoc(text)
		if err != nil {
			fail("encoded", "encoded proof is not the documented JSON shape: "+err.Error(), map[string]any{"json": string(text)})
		} else {
			for i := range got {
				if got[i].Cmp(want[i]) != 0 {
					fail("encoded", fmt.Sprintf("coordinate %d of the JSON is not in EVM order / differs from the proof", i), map[string]any{"json": string(text), "expected": coordStrings(want)})
					break
				}
			}
		}
		for _, doc := range []struct {
			name string
			text []byte
		}{{"own", text}, {"foreign-hex", p.pt.ProofDoc("hex")}, {"foreign-padhex", p.pt.ProofDoc("padhex")}} {
			var back prover.Proof
			if err := safeUnmarshal(doc.text, &back); err != nil {
				fail("decode/"+doc.name, fmt.Sprintf("decoding a proof with %d short coordinate(s) failed: %v", short, err), map[string]any{"json": string(doc.text)})
				continue
			}
			bp := ref.GetPoints(back.Proof)
			if !bp.Equal(p.pt) {
				fail("decode/"+doc.name, "decoded proof differs from the original", map[string]any{"json": string(doc.text), "decoded": coordStrings(bp.Coords())})
				continue
			}
			if p.hash != nil {
				if err := ps.VerifyInsertion(*p.hash, &back); err != nil {
					fail("verify/"+doc.name, "decoded proof is no longer accepted by the verifier: "+err.Error(), map[string]any{"json": string(doc.text)})
				}
			}
		}
		if short > 0 {
			run.Add("proofs_with_short_coordinate", 1)
		}
		run.Case(p.kind, true, p.label+want[0].Text(16)+want[6].Text(16), ok, sample)
	}
	// sequential stream: state carried from one decode to the next shows deterministically
	seq := min(len(proofs), o.Pick(600, 6000))
	for i := 0; i < seq; i++ {
		check(proofs[(i*7919)%len(proofs)])
	}
	run.Set("sequential_round_trips", seq)
	// a stream of proofs decoded into ONE destination variable, each result kept by value (the usual
	// `for dec.More() { dec.Decode(&cur); out = append(out, cur) }` loop): a later decode must not change a proof
	// decoded earlier
	if run.Wants("C10/stream") {
		var cur prover.Proof
		type keptProof struct {
			p    prover.Proof
			want c10Proof
		}
		var kept []keptProof
		nStream := min(len(proofs), o.Pick(300, 3000))
		for i := 0; i < nStream; i++ {
			pc := proofs[(i*104729)%len(proofs)]
			doc := pc.pt.ProofDoc([]string{"hex", "padhex"}[i%2])
			if err := safeUnmarshal(doc, &cur); err != nil {
				continue // reported by the per-proof cases
			}
			kept = append(kept, keptProof{cur, pc})
		}
		changed := 0
		for i, k := range kept {
			ok := k.p.Proof != nil && ref.GetPoints(k.p.Proof).Equal(k.want.pt)
			if ok && k.want.hash != nil {
				ok = ps.VerifyInsertion(*k.want.hash, &k.p) == nil
			}
			if !ok {
				changed++
				if changed <= 3 {
					run.Violate(fmt.Sprintf("C10/stream/%d", i), fmt.Sprintf("proof %d of %d decoded one after the other into the same variable (and kept by value) no longer equals its original after the later decodes", i, len(kept)), nil)
				}
			}
			run.Case("stream-kept", true, fmt.Sprintf("stream %d %s", i, k.want.label), ok, map[string]any{"position": i, "of": len(kept)})
		}
	}
	cli.ForEach(len(proofs), 0, func(i int) { check(proofs[i]) })
	// must-reject: a coordinate that does not fit 32 bytes / is negative
	for i := 0; i < 8; i++ {
		c := proofs[0].pt.Coords()
		c[i] = new(big.Int).Lsh(big.NewInt(1), 256+uint(i))
		var back prover.Proof
		err := safeUnmarshal(coordsDoc(c), &back)
		if isPanic(err) {
			run.Violate(fmt.Sprintf("C10/overwide/%d/panic", i), "proof decoder panics on a coordinate wider than 32 bytes: "+err.Error(), nil)
		}
		if err == nil && ref.GetPoints(back.Proof).Equal(proofs[0].pt) {
			run.Violate(fmt.Sprintf("C10/overwide/%d", i), "a coordinate wider than 32 bytes was silently truncated to a valid proof", nil)
		}
		run.Case("overwide-coordinate", true, fmt.Sprint(i), err == nil, map[string]any{"coordinate": i})
	}
	// a negative number is not a coordinate: it must not decode to the proof of its magnitude
	for i := 0; i < 8; i++ {
		c := proofs[0].pt.Coords()
		cs := coordStrings(c)
		cs[i] = "-" + cs[i]
		doc := ref.MustJSON(map[string]any{"ar": []string{cs[0], cs[1]}, "bs": [][]string{{cs[2], cs[3]}, {cs[4], cs[5]}}, "krs": []string{cs[6], cs[7]}})
		var back prover.Proof
		err := safeUnmarshal(doc, &back)
		if isPanic(err) {
			run.Violate(fmt.Sprintf("C10/negative/%d/panic", i), "proof decoder panics on a negative coordinate: "+err.Error(), nil)
		}
		if err == nil && back.Proof != nil && ref.GetPoints(back.Proof).Equal(proofs[0].pt) {
			run.Violate(fmt.Sprintf("C10/negative/%d", i), "a document with a NEGATIVE coordinate decodes to the valid proof of its magnitude (the JSON is not the proof's coordinates)", map[string]any{"json": string(doc)})
		}
		run.Case("negative-coordinate", true, fmt.Sprint("neg", i), err == nil, map[string]any{"coordinate": i})
	}
	run.Require("proofs with a coordinate shorter than 32 bytes", run.GetInt("proofs_with_short_coordinate"), 50)
	run.Require("real proofs", run.ClassTally("real").Cases, 1)
	run.Require("synthetic tiny-coordinate proofs", run.ClassTally("synthetic").Cases, 20)
	run.Require("synthetic proofs sweeping the coordinate bit length", run.ClassTally("synthetic-bitlen").Cases, 200)
}

func coordStrings(c [8]*big.Int) []string {
	out := make([]string, 8)
	for i := range c {
		out[i] = "0x" + c[i].Text(16)
	}
	return out
}

func coordsDoc(c [8]*big.Int) []byte {
	s := coordStrings(c)
	return ref.MustJSON(map[string]any{"ar": []string{s[0], s[1]}, "bs": [][]string{{s[2], s[3]}, {s[4], s[5]}}, "krs": []string{s[6], s[7]}})
}
