package main

import (
	"fmt"
	"math/big"
	"strings"
	"sync"

	"worldcoin/gnark-mbu/prover"

	"verifmon/internal/cases"
	"verifmon/internal/cli"
	"verifmon/internal/conv"
	"verifmon/internal/evid"
	"verifmon/internal/gen"
	"verifmon/internal/ref"
	"verifmon/internal/sysutil"
)

type c07System struct {
	mode string
	d, b int
	ps   *prover.ProvingSystem
	tag  string
}

func (s *c07System) verify(h *big.Int, p *prover.Proof) error {
	if s.mode == "insertion" {
		return s.ps.VerifyInsertion(*h, p)
	}
	return s.ps.VerifyDeletion(*h, p)
}

type c07Proved struct {
	sys   *c07System
	proof *prover.Proof
	hash  *big.Int
	key   string
}

func runC07(o *cli.Opts, run *evid.Run) {
	run.Rule("one case = one call of ProveInsertion/ProveDeletion or VerifyInsertion/VerifyDeletion on a real Groth16 system: valid batches must yield a proof accepted for hash, hash+r, hash+2r and rejected for hash+-1, perturbed-batch hashes, other requests' hashes, random values, the other mode's system of the same shape and an independent setup; 200 re-randomised derivatives per proof must behave the same; " +
		"invalid batches (every invalid class of C01/C02, wrong/foreign hash) and wrong dimensions (each array one too long/short, inner proofs too long/short, empty, nil) must yield error and nil proof; non-trivial = distinct (system, parameters, candidate public input)")
	run.Assume("validity and input hash from the monitor's reference specs (the repository's ComputeInputHash* is not used)", "Groth16 soundness: a rejected solver run cannot produce a proof")
	type spec struct {
		mode string
		d, b int
		tag  string
	}
	specs := []spec{{"insertion", 3, 2, "A"}, {"deletion", 3, 2, "A"}, {"insertion", 2, 1, "A"}, {"deletion", 2, 1, "A"}, {"insertion", 2, 1, "B"}}
	if o.Thorough() {
		specs = append(specs, spec{"deletion", 2, 1, "B"}, spec{"insertion", 10, 3, "A"}, spec{"deletion", 20, 1, "A"}, spec{"insertion", 5, 8, "A"}, spec{"deletion", 5, 8, "A"}, spec{"insertion", 3, 2, "B"})
	}
	systems := make([]*c07System, len(specs))
	cli.ForEach(len(specs), 3, func(i int) {
		sp := specs[i]
		ps, err := sysutil.Setup(sp.mode, sp.d, sp.b)
		if err != nil {
			run.Violate(fmt.Sprintf("C07/setup/%s/%d/%d", sp.mode, sp.d, sp.b), "setup failed: "+err.Error(), nil)
			return
		}
		systems[i] = &c07System{sp.mode, sp.d, sp.b, ps, sp.tag}
	})
	run.Stage("setup")
	nValid := o.Pick(8, 24)
	var proved []c07Proved
	var mu sync.Mutex
	type job struct {
		s *c07System
		k int
	}
	var jobs []job
	for _, s := range systems {
		if s == nil {
			continue
		}
		for k := 0; k < nValid; k++ {
			jobs = append(jobs, job{s, k})
		}
	}
	cli.ForEach(len(jobs), 4, func(ji int) {
		j := jobs[ji]
		s := j.s
		key := fmt.Sprintf("C07/%s%s/d=%d/b=%d/valid/%d", s.mode, s.tag, s.d, s.b, j.k)
		if !run.Wants(key) {
			return
		}
		r := gen.RNG(o.Seed, key)
		var proof *prover.Proof
		var err error
		var hash *big.Int
		var desc map[string]any
		var perturbed *big.Int
		if s.mode == "insertion" {
			c := sysutil.ValidInsK(r, s.d, s.b, j.k)
			p := sysutil.InsParams(c)
			hash, desc = p.InputHash, c.Describe()
			perturbed = ref.HashToField(ref.PackInsertion(p.StartIndex^1, p.Pre, p.Post, p.Ids))
			proof, err = s.ps.ProveInsertion(conv.ToRepoIns(p))
		} else {
			c := sysutil.ValidDelK(r, s.d, s.b, j.k)
			p := sysutil.DelParams(c)
			hash, desc = p.InputHash, c.Describe()
			perturbed = ref.HashToField(ref.PackDeletion(p.Indices, new(big.Int).Xor(p.Pre, big.NewInt(1)), p.Post))
			proof, err = s.ps.ProveDeletion(conv.ToRepoDel(p))
		}
		if err != nil || proof == nil || proof.Proof == nil {
			run.Violate(key+"/prove", fmt.Sprintf("prover fails on a valid batch: %v", err), desc)
			run.Case("prove/valid/"+s.mode, true, key, false, desc)
			return
		}
		run.Case("prove/valid/"+s.mode, true, key, true, desc)
		pt := ref.GetPoints(proof.Proof)
		// independent verification of the returned proof
		if e := sysutil.Verify(pt, s.ps.VerifyingKey, hash); e != nil {
			run.Violate(key+"/indep", "returned proof does not verify (gnark Verify with the reference hash): "+e.Error(), desc)
		}
		try := func(sub string, h *big.Int, pr *prover.Proof, want bool) {
			e := s.verify(h, pr)
			if (e == nil) != want {
				what := "verifier REJECTS the proof for " + sub
				if e == nil {
					what = "verifier ACCEPTS the proof for " + sub
				}
				run.Violate(key+"/verify/"+sub, what+fmt.Sprintf(" (%v)", e), map[string]any{"batch": desc, "public_input": ref.Num(h, "hex")})
			}
			run.Case("verify/"+sub, true, key+sub+h.Text(16), e == nil, map[string]any{"mode": s.mode, "depth": s.d, "batch": s.b, "candidate": sub, "public_input": ref.Num(h, "hex")})
		}
		one := big.NewInt(1)
		try("own-hash", hash, proof, true)
		try("hash+r", new(big.Int).Add(hash, ref.R), proof, true)
		try("hash+2r", new(big.Int).Add(hash, new(big.Int).Lsh(ref.R, 1)), proof, true)
		try("hash-r (negative representative)", new(big.Int).Sub(hash, ref.R), proof, true)
		try("hash-6r (negative representative)", new(big.Int).Sub(hash, new(big.Int).Mul(big.NewInt(6), ref.R)), proof, true)
		if hash.Sign() != 0 && new(big.Int).Lsh(hash, 1).Cmp(ref.R) != 0 {
			try("-hash (another residue)", new(big.Int).Neg(hash), proof, false)
		}
		try("hash+1", new(big.Int).Mod(new(big.Int).Add(hash, one), ref.R), proof, false)
		try("hash-1", new(big.Int).Mod(new(big.Int).Sub(hash, one), ref.R), proof, false)
		try("perturbed-batch-hash", perturbed, proof, false)
		try("zero", big.NewInt(0), proof, false)
		for q := 0; q < 3; q++ {
			try("random", gen.Below(r, ref.R), proof, false)
		}
		// re-randomised derivatives: same statement, different proof bytes
		delta := ref.VKDelta(s.ps.VerifyingKey)
		nd := o.Pick(60, 200)
		for q := 0; q < nd; q++ {
			d := &prover.Proof{Proof: ref.Rerandomise(pt, delta, r).ToProof()}
			if e := s.verify(hash, d); e != nil {
				run.Violate(fmt.Sprintf("%s/rerand/%d", key, q), "verifier rejects a valid re-randomised proof for its own hash: "+e.Error(), desc)
			}
			if e := s.verify(new(big.Int).Mod(new(big.Int).Add(hash, one), ref.R), d); e == nil {
				run.Violate(fmt.Sprintf("%s/rerand/%d/neg", key, q), "verifier accepts a re-randomised proof for hash+1", desc)
			}
			run.Add("rerandomised_verifications", 2)
		}
		mu.Lock()
		proved = append(proved, c07Proved{s, proof, hash, key})
		mu.Unlock()
	})
	run.Stage("valid")
	// cross checks: other requests' hashes, other mode of the same shape, independent setup
	for _, a := range proved {
		for _, b := range proved {
			if a.key == b.key {
				continue
			}
			switch {
			case a.sys == b.sys && a.hash.Cmp(b.hash) != 0:
				if a.sys.verify(b.hash, a.proof) == nil {
					run.Violate(a.key+"/cross/other-request", "verifier accepts a proof for another request's hash", map[string]any{"other": b.key})
				}
				run.Case("verify/other-request-hash", true, a.key+b.key, false, nil)
			case a.sys != b.sys && a.sys.d == b.sys.d && a.sys.b == b.sys.b:
				// the proof of system a under system b (other mode, or an independent setup) with a's hash
				if b.sys.verify(a.hash, a.proof) == nil {
					kind := "an independent setup of the same mode"
					if a.sys.mode != b.sys.mode {
						kind = "the other mode's system"
					}
					run.Violate(a.key+"/cross/"+b.sys.mode+b.sys.tag, "proof is accepted by "+kind, map[string]any{"verifier_system": b.key})
				}
				cls := "verify/independent-setup"
				if a.sys.mode != b.sys.mode {
					cls = "verify/other-mode-system"
				}
				run.Case(cls, true, a.key+b.sys.mode+b.sys.tag, false, map[string]any{"proof_of": a.sys.mode + a.sys.tag, "verified_under": b.sys.mode + b.sys.tag})
			}
		}
	}
	run.Stage("cross")
	// invalid batches and wrong dimensions: error and no proof
	nInv := o.Pick(3, 10)
	var ijobs []func()
	for _, s := range systems {
		if s == nil || s.tag != "A" {
			continue
		}
		s := s
		classes := cases.InsClasses
		if s.mode == "deletion" {
			classes = cases.DelClasses
		}
		for _, cl := range classes {
			if strings.HasPrefix(cl, "valid/") {
				continue
			}
			for k := 0; k < nInv; k++ {
				cl, k := cl, k
				ijobs = append(ijobs, func() { c07Invalid(o, run, s, cl, k) })
			}
		}
		for k := 0; k < o.Pick(2, 6); k++ {
			k := k
			ijobs = append(ijobs, func() { c07WrongHash(o, run, s, k) })
		}
		for _, sh := range shapeMutations {
			sh := sh
			ijobs = append(ijobs, func() { c07Shape(o, run, s, sh) })
		}
	}
	cli.ForEach(len(ijobs), 6, func(i int) { ijobs[i]() })
	run.Stage("invalid")
	// concurrent twins: a valid batch and an invalid one with the same public fields and input hash
	// (Merkle proofs are not hashed) proved at the same time on the same system
	for _, s := range systems {
		if s == nil || s.tag != "A" || s.d > 5 {
			continue
		}
		for k := 0; k < o.Pick(3, 12); k++ {
			c07Twins(o, run, s, k)
		}
	}
	run.Stage("twins")
	run.Require("valid batches proved", run.ClassTally("prove/valid/insertion").Accepted+run.ClassTally("prove/valid/deletion").Accepted, 8)
	run.Require("proof checked under the other mode's system", run.ClassTally("verify/other-mode-system").Cases, 4)
	run.Require("proof checked under an independent setup", run.ClassTally("verify/independent-setup").Cases, 4)
	run.Require("invalid batches refused", run.GetInt("invalid_refused"), 20)
	run.Require("wrong-dimension parameter sets", run.GetInt("shape_cases"), 10)
	run.Require("concurrent same-hash twin pairs", run.GetInt("twin_pairs"), 4)
}

func c07Twins(o *cli.Opts, run *evid.Run, s *c07System, k int) {
	key := fmt.Sprintf("C07/%s/d=%d/b=%d/twins/%d", s.mode, s.d, s.b, k)
	if !run.Wants(key) {
		return
	}
	r := gen.RNG(o.Seed, key)
	type res struct {
		proof *prover.Proof
		err   error
	}
	var good, bad res
	var hash *big.Int
	var wg sync.WaitGroup
	start := make(chan struct{})
	if s.mode == "insertion" {
		c := sysutil.ValidIns(r, s.d, s.b)
		p := sysutil.InsParams(c)
		hash = p.InputHash
		twin := *p
		twin.Proofs = make([][]*big.Int, len(p.Proofs))
		for i := range p.Proofs {
			twin.Proofs[i] = append([]*big.Int{}, p.Proofs[i]...)
		}
		twin.Proofs[r.Intn(s.b)][r.Intn(s.d)] = gen.Below(r, ref.R)
		if ref.ValidInsertion(ref.H2, ref.R, s.d, c.Start, twin.Pre, twin.Post, twin.Ids, twin.Proofs) {
			return
		}
		wg.Add(2)
		go func() { defer wg.Done(); <-start; good.proof, good.err = s.ps.ProveInsertion(conv.ToRepoIns(p)) }()
		go func() { defer wg.Done(); <-start; bad.proof, bad.err = s.ps.ProveInsertion(conv.ToRepoIns(&twin)) }()
	} else {
		c := sysutil.ValidDel(r, s.d, s.b)
		p := sysutil.DelParams(c)
		hash = p.InputHash
		twin := *p
		twin.Ids = append([]*big.Int{}, p.Ids...)
		twin.Ids[r.Intn(s.b)] = gen.Below(r, ref.R) // identity commitments are not hashed in deletion mode
		if ref.ValidDeletion(ref.H2, ref.R, s.d, c.Indices, twin.Pre, twin.Post, twin.Ids, twin.Proofs) {
			return
		}
		wg.Add(2)
		go func() { defer wg.Done(); <-start; good.proof, good.err = s.ps.ProveDeletion(conv.ToRepoDel(p)) }()
		go func() { defer wg.Done(); <-start; bad.proof, bad.err = s.ps.ProveDeletion(conv.ToRepoDel(&twin)) }()
	}
	close(start)
	wg.Wait()
	ok := true
	if good.err != nil || good.proof == nil {
		ok = false
		run.Violate(key+"/valid", fmt.Sprintf("a valid batch proved concurrently with an invalid batch of the same input hash failed: %v", good.err), nil)
	} else if e := sysutil.Verify(ref.GetPoints(good.proof.Proof), s.ps.VerifyingKey, hash); e != nil {
		ok = false
		run.Violate(key+"/valid", "the proof of the valid twin does not verify: "+e.Error(), nil)
	}
	if bad.err == nil || bad.proof != nil {
		ok = false
		run.Violate(key+"/invalid", "an invalid batch proved concurrently with a valid batch of the same input hash received a proof / no error", nil)
	}
	run.Add("twin_pairs", 1)
	run.Case("prove/concurrent-twins/"+s.mode, true, key, ok, map[string]any{"mode": s.mode, "depth": s.d, "batch": s.b, "input_hash": ref.Num(hash, "hex")})
}

func mustRefuse(run *evid.Run, key, class string, proof *prover.Proof, err error, sample any) {
	refused := err != nil && proof == nil
	if !refused {
		run.Violate(key, fmt.Sprintf("prover returned err=%v proof!=nil=%v for %s; expected an error and no proof", err, proof != nil, class), sample)
	} else {
		run.Add("invalid_refused", 1)
	}
	run.Case("prove/"+class, true, key, !refused, sample)
}

func c07Invalid(o *cli.Opts, run *evid.Run, s *c07System, class string, k int) {
	key := fmt.Sprintf("C07/%s/d=%d/b=%d/%s/%d", s.mode, s.d, s.b, class, k)
	if !run.Wants(key) {
		return
	}
	r := gen.RNG(o.Seed, key)
	defer func() {
		if p := recover(); p != nil {
			run.Violate(key+"/panic", fmt.Sprintf("prover panics on %s: %v", class, p), nil)
		}
	}()
	if s.mode == "insertion" {
		c, ok := cases.BN254.Insertion(r, class, s.d, s.b)
		if !ok || c.Valid || !sysutil.InsFits(c) {
			return
		}
		proof, err := s.ps.ProveInsertion(conv.ToRepoIns(sysutil.InsParams(c)))
		mustRefuse(run, key, "insertion/"+class, proof, err, c.Describe())
		return
	}
	c, ok := cases.BN254.Deletion(r, class, s.d, s.b)
	if !ok || c.Valid || !sysutil.DelFits(c) {
		return
	}
	proof, err := s.ps.ProveDeletion(conv.ToRepoDel(sysutil.DelParams(c)))
	mustRefuse(run, key, "deletion/"+class, proof, err, c.Describe())
}

func c07WrongHash(o *cli.Opts, run *evid.Run, s *c07System, k int) {
	key := fmt.Sprintf("C07/%s/d=%d/b=%d/wrong-hash/%d", s.mode, s.d, s.b, k)
	if !run.Wants(key) {
		return
	}
	r := gen.RNG(o.Seed, key)
	pick := func(good, other *big.Int) *big.Int {
		switch k % 3 {
		case 0:
			return new(big.Int).Mod(new(big.Int).Add(good, big.NewInt(1)), ref.R)
		case 1:
			return other
		}
		return gen.Below(r, ref.R)
	}
	if s.mode == "insertion" {
		p := sysutil.InsParams(sysutil.ValidIns(r, s.d, s.b))
		other := sysutil.InsParams(sysutil.ValidIns(r, s.d, s.b)).InputHash
		p.InputHash = pick(p.InputHash, other)
		proof, err := s.ps.ProveInsertion(conv.ToRepoIns(p))
		mustRefuse(run, key, "insertion/wrong-input-hash", proof, err, map[string]any{"kind": k % 3})
		return
	}
	p := sysutil.DelParams(sysutil.ValidDel(r, s.d, s.b))
	other := sysutil.DelParams(sysutil.ValidDel(r, s.d, s.b)).InputHash
	p.InputHash = pick(p.InputHash, other)
	proof, err := s.ps.ProveDeletion(conv.ToRepoDel(p))
	mustRefuse(run, key, "deletion/wrong-input-hash", proof, err, map[string]any{"kind": k % 3})
}

var shapeMutations = []string{"ids+1", "ids-1", "proofs+1", "proofs-1", "indices+1", "indices-1", "inner+1", "inner-1", "inner-last+1", "inner-empty", "all-empty", "all-nil", "ids-empty", "indices-empty", "indices-nil"}

// c07Shape: an otherwise valid batch with one dimension off.
func c07Shape(o *cli.Opts, run *evid.Run, s *c07System, mut string) {
	key := fmt.Sprintf("C07/%s/d=%d/b=%d/shape/%s", s.mode, s.d, s.b, mut)
	if !run.Wants(key) {
		return
	}
	if s.mode == "insertion" && strings.HasPrefix(mut, "indices") {
		return
	}
	r := gen.RNG(o.Seed, key)
	extra := func() *big.Int { return gen.Below(r, ref.R) }
	defer func() {
		if p := recover(); p != nil {
			run.Violate(key+"/panic", fmt.Sprintf("prover panics on wrong dimensions (%s): %v", mut, p), nil)
			run.Add("shape_cases", 1)
		}
	}()
	var ids *[]*big.Int
	var proofs *[][]*big.Int
	var indices *[]uint32
	var ip *ref.InsParams
	var dp *ref.DelParams
	if s.mode == "insertion" {
		ip = sysutil.InsParams(sysutil.ValidIns(r, s.d, s.b))
		ids, proofs = &ip.Ids, &ip.Proofs
	} else {
		dp = sysutil.DelParams(sysutil.ValidDel(r, s.d, s.b))
		ids, proofs, indices = &dp.Ids, &dp.Proofs, &dp.Indices
	}
	cp := func(p [][]*big.Int) [][]*big.Int {
		out := make([][]*big.Int, len(p))
		for i := range p {
			out[i] = append([]*big.Int{}, p[i]...)
		}
		return out
	}
	*proofs = cp(*proofs)
	*ids = append([]*big.Int{}, (*ids)...)
	switch mut {
	case "ids+1":
		*ids = append(*ids, extra())
	case "ids-1":
		*ids = (*ids)[:len(*ids)-1]
	case "proofs+1":
		*proofs = append(*proofs, append([]*big.Int{}, (*proofs)[0]...))
	case "proofs-1":
		*proofs = (*proofs)[:len(*proofs)-1]
	case "indices+1":
		*indices = append(append([]uint32{}, *indices...), 0)
	case "indices-1":
		*indices = append([]uint32{}, (*indices)[:len(*indices)-1]...)
	case "inner+1": // trailing garbage sibling on the first proof
		(*proofs)[0] = append((*proofs)[0], extra())
	case "inner-1":
		(*proofs)[0] = (*proofs)[0][:len((*proofs)[0])-1]
	case "inner-last+1":
		l := len(*proofs) - 1
		(*proofs)[l] = append((*proofs)[l], big.NewInt(0))
	case "inner-empty":
		(*proofs)[len(*proofs)-1] = []*big.Int{}
	case "all-empty":
		*ids, *proofs = []*big.Int{}, [][]*big.Int{}
		if indices != nil {
			*indices = []uint32{}
		}
	case "all-nil":
		*ids, *proofs = nil, nil
		if indices != nil {
			*indices = nil
		}
	case "ids-empty":
		*ids = []*big.Int{}
	case "indices-empty":
		*indices = []uint32{}
	case "indices-nil":
		*indices = nil
	}
	run.Add("shape_cases", 1)
	if s.mode == "insertion" {
		proof, err := s.ps.ProveInsertion(conv.ToRepoIns(ip))
		mustRefuse(run, key, "insertion/shape/"+mut, proof, err, map[string]any{"mutation": mut, "depth": s.d, "batch": s.b})
		return
	}
	proof, err := s.ps.ProveDeletion(conv.ToRepoDel(dp))
	mustRefuse(run, key, "deletion/shape/"+mut, proof, err, map[string]any{"mutation": mut, "depth": s.d, "batch": s.b})
}
