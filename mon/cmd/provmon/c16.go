package main

import (
	"encoding/json"
	"fmt"
	"math/big"
	"math/rand"

	"worldcoin/gnark-mbu/prover"

	"verifmon/internal/cli"
	"verifmon/internal/conv"
	"verifmon/internal/evid"
	"verifmon/internal/gen"
	"verifmon/internal/ref"
)

var two256 = new(big.Int).Lsh(big.NewInt(1), 256)

func c16Value(r *rand.Rand) *big.Int {
	if r.Intn(10) == 0 { // exact bit lengths, machine-word boundaries favoured
		k := 1 + r.Intn(256)
		if r.Intn(2) == 0 {
			k = []int{7, 8, 9, 31, 32, 33, 63, 64, 65, 127, 128, 129, 255, 256}[r.Intn(14)]
		}
		v := new(big.Int).Rand(r, new(big.Int).Lsh(big.NewInt(1), uint(k-1)))
		return v.SetBit(v, k-1, 1)
	}
	switch r.Intn(12) {
	case 0:
		return big.NewInt(0)
	case 1:
		return big.NewInt(1)
	case 2:
		return new(big.Int).Sub(ref.R, big.NewInt(1))
	case 3:
		return new(big.Int).Set(ref.R)
	case 4:
		return new(big.Int).Add(ref.R, big.NewInt(1))
	case 5:
		return new(big.Int).Sub(two256, big.NewInt(1))
	case 6:
		return gen.WithLeadingZeroBytes(r, 1+r.Intn(31), two256)
	case 7:
		return gen.Elem(r, gen.MagClasses[r.Intn(len(gen.MagClasses))], ref.R)
	}
	return gen.Below(r, two256)
}

func c16Index(r *rand.Rand) uint32 {
	switch r.Intn(6) {
	case 0:
		return 0
	case 1:
		return 1
	case 2:
		return 1 << 31
	case 3:
		return 0xffffffff
	}
	return r.Uint32()
}

func c16Shape(r *rand.Rand) (batch int, depths []int) {
	batch = r.Intn(13)
	if r.Intn(8) == 0 {
		batch = 0
	}
	if r.Intn(300) == 0 {
		batch = []int{100, 256, 1000}[r.Intn(3)] // production-size documents
	}
	ragged := r.Intn(5) == 0
	d := r.Intn(41)
	if r.Intn(6) == 0 {
		d = 0
	}
	nproofs := batch
	if r.Intn(10) == 0 {
		nproofs = r.Intn(14) // number of proofs differs from the number of commitments
	}
	depths = make([]int, nproofs)
	for i := range depths {
		depths[i] = d
		if ragged {
			depths[i] = r.Intn(41)
		}
	}
	return
}

func c16Values(r *rand.Rand, n int) []*big.Int {
	out := make([]*big.Int, n)
	for i := range out {
		out[i] = c16Value(r)
	}
	return out
}

var mustReject = []string{"", "0x", "zz", "0xzz", " 1", "1 ", "1.5", "1e3", "0x 1", "--1", "abc", "0xg", "x10", "0x1.8", "١٢",
	"0x+ff", "0x-1", "0x-0", "0x0x1", "0xx1", "0X-a", "0x+", "1-", "1+1", "0x1-"}
var badIndex = []string{"-1", "4294967296", "4294967297", "8589934591", "8589934592", "9223372036854775807", "9223372036854775808", "18446744073709551615", "18446744073709551616", "340282366920938463463374607431768211456", "1.5", `"1"`, `"0x1"`, "1e10", "null1", "[1]", "true"}

func runC16(o *cli.Opts, run *evid.Run) {
	run.Rule("one case = one parameter document: (a) PRNG parameter set -> repo Marshal -> independent reader + repo Unmarshal must both give the same values/shapes; " +
		"(b) independent writer in dec/0x/0X/zero-padded hex -> repo Unmarshal must give the same values; (c) one numeric position replaced by a non-number / one index replaced by an out-of-range value -> Unmarshal must fail. " +
		"non-trivial = distinct document text")
	run.Assume("negative numbers and Go base-0 spellings beyond decimal/0x (0b, 0o, digit separators, signs) are not asserted either way")
	n := o.Pick(20000, 1000000)
	cli.ForEach(n, 0, func(i int) {
		key := fmt.Sprintf("C16/%d", i)
		if !run.Wants(key) {
			return
		}
		r := gen.RNG(o.Seed, key)
		if i%2 == 0 {
			c16Insertion(run, r, key, i)
		} else {
			c16Deletion(run, r, key, i)
		}
	})
	c16Partial(o, run)
	for _, c := range []string{"ins/roundtrip", "del/roundtrip", "ins/foreign-style", "del/foreign-style", "ins/must-reject", "del/must-reject", "ins/bad-index", "del/bad-index"} {
		run.Require("cases in class "+c, run.ClassTally(c).Cases, 100)
	}
}

// c16Partial: a sequential stream alternating complete documents with documents in which one key is
// absent. The outcome of decoding a document must depend on that document alone: an absent number must
// not silently take a value (in particular not one left over from an earlier decode), an absent index may
// only be rejected or read as 0.
func c16Partial(o *cli.Opts, run *evid.Run) {
	n := o.Pick(1500, 20000)
	for i := 0; i < n; i++ {
		key := fmt.Sprintf("C16/partial/%d", i)
		if !run.Wants(key) {
			continue
		}
		r := gen.RNG(o.Seed, key)
		batch, depths := 1+r.Intn(3), []int{}
		for j := 0; j < batch; j++ {
			depths = append(depths, 2)
		}
		ins := i%2 == 0
		var full map[string]any
		if ins {
			p := &ref.InsParams{InputHash: gen.NonZeroElem(r, ref.R), StartIndex: 1 + uint32(r.Intn(1<<30)), Pre: gen.NonZeroElem(r, ref.R), Post: gen.NonZeroElem(r, ref.R), Ids: c16Values(r, batch)}
			for _, d := range depths {
				p.Proofs = append(p.Proofs, c16Values(r, d))
			}
			full = ref.InsDoc(p, "hex")
		} else {
			p := &ref.DelParams{InputHash: gen.NonZeroElem(r, ref.R), Pre: gen.NonZeroElem(r, ref.R), Post: gen.NonZeroElem(r, ref.R), Ids: c16Values(r, batch)}
			for j := 0; j < batch; j++ {
				p.Indices = append(p.Indices, 1+uint32(r.Intn(1<<30)))
			}
			for _, d := range depths {
				p.Proofs = append(p.Proofs, c16Values(r, d))
			}
			full = ref.DelDoc(p, "hex")
		}
		// a complete document first (this is what may leave state behind) …
		decode := func(text []byte) (any, error) {
			if ins {
				var v prover.InsertionParameters
				err := safeUnmarshal(text, &v)
				return &v, err
			}
			var v prover.DeletionParameters
			err := safeUnmarshal(text, &v)
			return &v, err
		}
		if _, err := decode(ref.MustJSON(full)); err != nil {
			run.Violate(key+"/full", "a complete well-formed document is rejected: "+err.Error(), nil)
			continue
		}
		// … then the same document with one key removed
		fields := []string{"inputHash", "preRoot", "postRoot"}
		if ins {
			fields = append(fields, "startIndex")
		}
		f := fields[r.Intn(len(fields))]
		part := map[string]any{}
		for k, v := range full {
			if k != f {
				part[k] = v
			}
		}
		if r.Intn(4) == 0 {
			part = map[string]any{} // the empty object
			f = "all keys"
		}
		v, err := decode(ref.MustJSON(part))
		ok := true
		if isPanic(err) {
			ok = false
			run.Violate(key+"/"+f+"/panic", "decoder panics on a document with an absent key: "+err.Error(), nil)
		} else if err == nil {
			if f == "startIndex" {
				if got := v.(*prover.InsertionParameters).StartIndex; got != 0 {
					ok = false
					run.Violate(key+"/"+f, fmt.Sprintf("a document without startIndex decodes to startIndex=%d (a value carried over from an earlier decode)", got), map[string]any{"doc": trunc(string(ref.MustJSON(part)))})
				}
			} else {
				ok = false
				run.Violate(key+"/"+f, fmt.Sprintf("a document with %s absent decodes without error (the absent number silently took a value)", f), map[string]any{"doc": trunc(string(ref.MustJSON(part)))})
			}
		}
		mode := "del"
		if ins {
			mode = "ins"
		}
		run.Case(mode+"/absent-key", true, key, ok && err == nil, map[string]any{"absent": f, "rejected": err != nil})
	}
}

// setAt replaces numeric position pos (counted over inputHash, preRoot,
// postRoot, commitments, then proof entries) in doc by s; returns false if pos
// is out of range.
func setAt(doc map[string]any, pos int, s string) (string, bool) {
	for _, f := range []string{"inputHash", "preRoot", "postRoot"} {
		if pos == 0 {
			doc[f] = s
			return f, true
		}
		pos--
	}
	ids := doc["identityCommitments"].([]any)
	if pos < len(ids) {
		ids[pos] = s
		return fmt.Sprintf("identityCommitments[%d]", pos), true
	}
	pos -= len(ids)
	for i, p := range doc["merkleProofs"].([]any) {
		pp := p.([]any)
		if pos < len(pp) {
			pp[pos] = s
			return fmt.Sprintf("merkleProofs[%d][%d]", i, pos), true
		}
		pos -= len(pp)
	}
	return "", false
}

func numPositions(nIds int, depths []int) int {
	n := 3 + nIds
	for _, d := range depths {
		n += d
	}
	return n
}

func c16Insertion(run *evid.Run, r *rand.Rand, key string, i int) {
	batch, depths := c16Shape(r)
	p := &ref.InsParams{InputHash: c16Value(r), StartIndex: c16Index(r), Pre: c16Value(r), Post: c16Value(r), Ids: c16Values(r, batch)}
	for _, d := range depths {
		p.Proofs = append(p.Proofs, c16Values(r, d))
	}
	if r.Intn(20) == 0 {
		p.Ids, p.Proofs = nil, nil
	}
	sample := map[string]any{"batch": batch, "proof_lengths": depths, "startIndex": p.StartIndex, "preRoot": ref.Num(p.Pre, "hex")}
	// (a) round trip through the repository's encoder
	q := conv.ToRepoIns(p)
	text, err := safeMarshal(q)
	ok := true
	if err != nil {
		ok = false
		run.Violate(key+"/marshal", "Marshal failed: "+err.Error(), sample)
	} else {
		seen, err := ref.ReadIns(text)
		if err != nil {
			ok = false
			run.Violate(key+"/encoded", "encoded document is not readable by the independent reader: "+err.Error(), map[string]any{"doc": string(text)})
		} else if !conv.EqIns(seen, p) {
			ok = false
			run.Violate(key+"/encoded", "encoded document carries different values than the parameters", map[string]any{"doc": trunc(string(text)), "params": sample})
		}
		var back prover.InsertionParameters
		if err := safeUnmarshal(text, &back); err != nil {
			ok = false
			run.Violate(key+"/decode", "decoding the encoder's own output failed: "+err.Error(), map[string]any{"doc": trunc(string(text))})
		} else if !conv.EqIns(conv.FromRepoIns(&back), p) {
			ok = false
			run.Violate(key+"/decode", "round trip changed the parameters", map[string]any{"doc": trunc(string(text)), "params": sample})
		}
	}
	run.Case("ins/roundtrip", true, string(text), ok, sample)
	// (b) documents written by somebody else
	style := []string{"dec", "hex", "HEX", "padhex"}[r.Intn(4)]
	ftext := ref.MustJSON(ref.InsDoc(p, style))
	var back prover.InsertionParameters
	ok = true
	if err := safeUnmarshal(ftext, &back); err != nil {
		ok = false
		run.Violate(key+"/foreign/"+style, "well-formed document in style "+style+" rejected: "+err.Error(), map[string]any{"doc": trunc(string(ftext))})
	} else if !conv.EqIns(conv.FromRepoIns(&back), p) {
		ok = false
		run.Violate(key+"/foreign/"+style, "document in style "+style+" decoded to different values", map[string]any{"doc": trunc(string(ftext))})
	}
	run.Case("ins/foreign-style", true, string(ftext), ok, map[string]any{"style": style, "doc": trunc(string(ftext))})
	// (c) one numeric position is not a number
	doc := ref.InsDoc(p, "hex")
	pos := r.Intn(numPositions(len(p.Ids), depthsOf(p.Proofs)))
	bad := mustReject[r.Intn(len(mustReject))]
	where, _ := setAt(doc, pos, bad)
	btext := ref.MustJSON(doc)
	var sink prover.InsertionParameters
	err = safeUnmarshal(btext, &sink)
	if isPanic(err) {
		run.Violate(fmt.Sprintf("%s/reject/%s", key, where)+"/panic", "decoder panics instead of failing with an error: "+err.Error(), nil)
	} else if err == nil {
		run.Violate(fmt.Sprintf("%s/reject/%s", key, where), fmt.Sprintf("non-number %q at %s was accepted", bad, where), map[string]any{"doc": trunc(string(btext))})
	}
	run.Case("ins/must-reject", true, string(btext), err == nil, map[string]any{"position": where, "string": bad})
	// (d) index outside 32 bits / not an integer
	bi := badIndex[r.Intn(len(badIndex))]
	raw := replaceField(ref.MustJSON(ref.InsDoc(p, "hex")), "startIndex", bi)
	err = safeUnmarshal(raw, &sink)
	if isPanic(err) {
		run.Violate(key+"/badindex"+"/panic", "decoder panics instead of failing with an error: "+err.Error(), nil)
	} else if err == nil {
		run.Violate(key+"/badindex", fmt.Sprintf("startIndex %s was accepted", bi), map[string]any{"doc": trunc(string(raw))})
	}
	run.Case("ins/bad-index", true, string(raw), err == nil, map[string]any{"startIndex": bi})
}

func c16Deletion(run *evid.Run, r *rand.Rand, key string, i int) {
	batch, depths := c16Shape(r)
	p := &ref.DelParams{InputHash: c16Value(r), Pre: c16Value(r), Post: c16Value(r), Ids: c16Values(r, batch)}
	nIdx := batch
	if r.Intn(10) == 0 {
		nIdx = r.Intn(14)
	}
	p.Indices = make([]uint32, nIdx)
	for j := range p.Indices {
		p.Indices[j] = c16Index(r)
	}
	for _, d := range depths {
		p.Proofs = append(p.Proofs, c16Values(r, d))
	}
	if r.Intn(20) == 0 {
		p.Ids, p.Proofs, p.Indices = nil, nil, nil
	}
	sample := map[string]any{"batch": batch, "proof_lengths": depths, "indices": p.Indices, "preRoot": ref.Num(p.Pre, "hex")}
	q := conv.ToRepoDel(p)
	text, err := safeMarshal(q)
	ok := true
	if err != nil {
		ok = false
		run.Violate(key+"/marshal", "Marshal failed: "+err.Error(), sample)
	} else {
		// a nil index slice is encoded by encoding/json as null: the independent reader treats null as empty
		seen, err := ref.ReadDel(nullToEmpty(text))
		if err != nil {
			ok = false
			run.Violate(key+"/encoded", "encoded document is not readable by the independent reader: "+err.Error(), map[string]any{"doc": trunc(string(text))})
		} else if !conv.EqDel(seen, p) {
			ok = false
			run.Violate(key+"/encoded", "encoded document carries different values than the parameters", map[string]any{"doc": trunc(string(text)), "params": sample})
		}
		var back prover.DeletionParameters
		if err := safeUnmarshal(text, &back); err != nil {
			ok = false
			run.Violate(key+"/decode", "decoding the encoder's own output failed: "+err.Error(), map[string]any{"doc": trunc(string(text))})
		} else if !conv.EqDel(conv.FromRepoDel(&back), p) {
			ok = false
			run.Violate(key+"/decode", "round trip changed the parameters", map[string]any{"doc": trunc(string(text)), "params": sample})
		}
	}
	run.Case("del/roundtrip", true, string(text), ok, sample)
	style := []string{"dec", "hex", "HEX", "padhex"}[r.Intn(4)]
	ftext := ref.MustJSON(ref.DelDoc(p, style))
	var back prover.DeletionParameters
	ok = true
	if err := safeUnmarshal(ftext, &back); err != nil {
		ok = false
		run.Violate(key+"/foreign/"+style, "well-formed document in style "+style+" rejected: "+err.Error(), map[string]any{"doc": trunc(string(ftext))})
	} else if !conv.EqDel(conv.FromRepoDel(&back), p) {
		ok = false
		run.Violate(key+"/foreign/"+style, "document in style "+style+" decoded to different values", map[string]any{"doc": trunc(string(ftext))})
	}
	run.Case("del/foreign-style", true, string(ftext), ok, map[string]any{"style": style, "doc": trunc(string(ftext))})
	doc := ref.DelDoc(p, "hex")
	pos := r.Intn(numPositions(len(p.Ids), depthsOf(p.Proofs)))
	bad := mustReject[r.Intn(len(mustReject))]
	where, _ := setAt(doc, pos, bad)
	btext := ref.MustJSON(doc)
	var sink prover.DeletionParameters
	err = safeUnmarshal(btext, &sink)
	if isPanic(err) {
		run.Violate(fmt.Sprintf("%s/reject/%s", key, where)+"/panic", "decoder panics instead of failing with an error: "+err.Error(), nil)
	} else if err == nil {
		run.Violate(fmt.Sprintf("%s/reject/%s", key, where), fmt.Sprintf("non-number %q at %s was accepted", bad, where), map[string]any{"doc": trunc(string(btext))})
	}
	run.Case("del/must-reject", true, string(btext), err == nil, map[string]any{"position": where, "string": bad})
	if len(p.Indices) > 0 {
		bi := badIndex[r.Intn(len(badIndex))]
		at := r.Intn(len(p.Indices))
		d2 := ref.DelDoc(p, "hex")
		d2["deletionIndices"].([]any)[at] = json.RawMessage("\"@@IDX@@\"")
		raw := replaceToken(ref.MustJSON(d2), `"@@IDX@@"`, bi)
		err = safeUnmarshal(raw, &sink)
		if isPanic(err) {
			run.Violate(key+"/badindex"+"/panic", "decoder panics instead of failing with an error: "+err.Error(), nil)
		} else if err == nil {
			run.Violate(key+"/badindex", fmt.Sprintf("deletion index %s was accepted", bi), map[string]any{"doc": trunc(string(raw))})
		}
		run.Case("del/bad-index", true, string(raw), err == nil, map[string]any{"index": bi, "position": at})
	}
}

func depthsOf(p [][]*big.Int) []int {
	out := make([]int, len(p))
	for i := range p {
		out[i] = len(p[i])
	}
	return out
}

func trunc(s string) string {
	if len(s) > 600 {
		return s[:600] + "…"
	}
	return s
}
