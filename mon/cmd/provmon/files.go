package main

import (
	"bytes"
	"crypto/sha256"
	"encoding/hex"
	"fmt"
	"io"
	"math/big"
	"math/rand"

	"github.com/consensys/gnark-crypto/ecc"
	"github.com/consensys/gnark/backend/groth16"
	"github.com/consensys/gnark/frontend"
	"github.com/consensys/gnark/frontend/cs/r1cs"

	"worldcoin/gnark-mbu/prover"
)

// powCircuit is a trivial circuit (Y = X^(2^K) + extra) used to mass-produce
// small, independent proving systems for the file-format monitors.
type powCircuit struct {
	X frontend.Variable
	Y frontend.Variable `gnark:",public"`
	K int
	// Hints adds a few hint-bearing constraints (bit decomposition, is-zero), as the real circuits have; it makes
	// the keys file ~100x larger, so only the monitors that need it switch it on
	Hints bool
}

func (c *powCircuit) Define(api frontend.API) error {
	v := c.X
	for i := 0; i < c.K; i++ {
		v = api.Mul(v, v)
	}
	api.AssertIsEqual(v, c.Y)
	if c.Hints {
		bits := api.ToBinary(c.Y, 254)
		api.AssertIsEqual(api.IsZero(api.Add(bits[0], bits[c.K], 1)), 0)
	}
	return nil
}

func powValue(x *big.Int, k int) *big.Int {
	v := new(big.Int).Set(x)
	for i := 0; i < k; i++ {
		v.Mul(v, v).Mod(v, ecc.BN254.ScalarField())
	}
	return v
}

// smallSystem builds an independent proving system with arbitrary header values.
func smallSystem(r *rand.Rand) (*prover.ProvingSystem, int, error) {
	k := 1 + r.Intn(6)
	ccs, err := frontend.Compile(ecc.BN254.ScalarField(), r1cs.NewBuilder, &powCircuit{K: k})
	if err != nil {
		return nil, 0, err
	}
	pk, vk, err := groth16.Setup(ccs)
	if err != nil {
		return nil, 0, err
	}
	// plausible dimensions only (a reader is entitled to sanity-check its header):
	// depth 1..32, 1 <= batch <= 2^depth, depth != batch so that a swap is visible
	depth := uint32(1 + r.Intn(32))
	if r.Intn(4) == 0 {
		depth = []uint32{1, 31, 32, 30, 20}[r.Intn(5)]
	}
	maxBatch := uint64(1) << depth
	if maxBatch > 1<<16 {
		maxBatch = 1 << 16
	}
	batch := uint32(1 + r.Int63n(int64(maxBatch)))
	if batch == depth {
		if uint64(batch) < maxBatch {
			batch++
		} else {
			batch--
		}
	}
	if batch == 0 || batch == depth {
		depth, batch = 2, 1
	}
	return &prover.ProvingSystem{TreeDepth: depth, BatchSize: batch, ProvingKey: pk, VerifyingKey: vk, ConstraintSystem: ccs}, k, nil
}

// smallSystemK builds an independent system for a fixed circuit size and header.
func smallSystemK(r *rand.Rand, k int, depth, batch uint32, hints ...bool) (*prover.ProvingSystem, int, error) {
	h := len(hints) > 0 && hints[0]
	if h {
		k = -k // negative k marks a hint-bearing circuit for smallProve/smallVerify
	}
	ccs, err := frontend.Compile(ecc.BN254.ScalarField(), r1cs.NewBuilder, &powCircuit{K: abs(k), Hints: h})
	if err != nil {
		return nil, 0, err
	}
	pk, vk, err := groth16.Setup(ccs)
	if err != nil {
		return nil, 0, err
	}
	return &prover.ProvingSystem{TreeDepth: depth, BatchSize: batch, ProvingKey: pk, VerifyingKey: vk, ConstraintSystem: ccs}, k, nil
}

func abs(k int) int {
	if k < 0 {
		return -k
	}
	return k
}

// smallProve proves the trivial statement with ps and returns proof and public witness value.
func smallProve(ps *prover.ProvingSystem, k int, x *big.Int) (groth16.Proof, *big.Int, error) {
	y := powValue(x, abs(k))
	w, err := frontend.NewWitness(&powCircuit{X: x, Y: y, K: abs(k), Hints: k < 0}, ecc.BN254.ScalarField())
	if err != nil {
		return nil, nil, err
	}
	p, err := groth16.Prove(ps.ConstraintSystem, ps.ProvingKey, w)
	return p, y, err
}

func smallVerify(ps *prover.ProvingSystem, k int, proof groth16.Proof, y *big.Int) error {
	w, err := frontend.NewWitness(&powCircuit{Y: y, K: abs(k), Hints: k < 0}, ecc.BN254.ScalarField(), frontend.PublicOnly())
	if err != nil {
		return err
	}
	return groth16.Verify(proof, ps.VerifyingKey, w)
}

type countingWriter struct {
	w io.Writer
	n int64
}

func (c *countingWriter) Write(p []byte) (int, error) {
	n, err := c.w.Write(p)
	c.n += int64(n)
	return n, err
}

func digestOf(write func(io.Writer) (int64, error)) string {
	h := sha256.New()
	if _, err := write(h); err != nil {
		return "error: " + err.Error()
	}
	return hex.EncodeToString(h.Sum(nil))
}

// partDigests returns canonical digests of the three parts of a system.
func partDigests(ps *prover.ProvingSystem) (pk, vk, cs string) {
	return digestOf(ps.ProvingKey.WriteRawTo), digestOf(ps.VerifyingKey.WriteRawTo), digestOf(ps.ConstraintSystem.WriteTo)
}

// serialise writes ps in the given format and returns the bytes and the count the writer reported.
func serialise(ps *prover.ProvingSystem, raw bool) ([]byte, int64, error) {
	var buf bytes.Buffer
	var n int64
	var err error
	if raw {
		n, err = ps.WriteRawTo(&buf)
	} else {
		n, err = ps.WriteTo(&buf)
	}
	return buf.Bytes(), n, err
}

// sectionBoundaries computes the offsets header|pk|vk|cs independently with counting writers.
func sectionBoundaries(ps *prover.ProvingSystem, raw bool) []int64 {
	var a, b countingWriter
	a.w, b.w = io.Discard, io.Discard
	if raw {
		ps.ProvingKey.WriteRawTo(&a)
		ps.VerifyingKey.WriteRawTo(&b)
	} else {
		ps.ProvingKey.WriteTo(&a)
		ps.VerifyingKey.WriteTo(&b)
	}
	return []int64{4, 8, 8 + a.n, 8 + a.n + b.n}
}

func fmtName(raw bool) string {
	if raw {
		return "raw"
	}
	return "compressed"
}

var _ = fmt.Sprint
