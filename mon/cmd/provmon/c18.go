package main

import (
	"fmt"
	"math/big"
	"sort"

	"worldcoin/gnark-mbu/poseidon_tree"

	"verifmon/internal/cli"
	"verifmon/internal/evid"
	"verifmon/internal/gen"
	"verifmon/internal/ref"
)

// scratchRoot recomputes the root of a complete tree of the given depth from
// nothing but the leaf map (sparse recursion; empty subtrees by iterated hashing).
func scratchRoot(depth int, leaves map[uint64]*big.Int) *big.Int {
	empty := make([]*big.Int, depth+1)
	empty[0] = big.NewInt(0)
	for l := 1; l <= depth; l++ {
		empty[l] = ref.H2(empty[l-1], empty[l-1])
	}
	keys := make([]uint64, 0, len(leaves))
	for k, v := range leaves {
		if v.Sign() != 0 {
			keys = append(keys, k)
		}
	}
	sort.Slice(keys, func(i, j int) bool { return keys[i] < keys[j] })
	var rec func(level int, prefix uint64, ks []uint64) *big.Int
	rec = func(level int, prefix uint64, ks []uint64) *big.Int {
		if len(ks) == 0 {
			return empty[level]
		}
		if level == 0 {
			return leaves[ks[0]]
		}
		mid := (prefix<<1 | 1) << uint(level-1)
		cut := sort.Search(len(ks), func(i int) bool { return ks[i] >= mid })
		return ref.H2(rec(level-1, prefix<<1, ks[:cut]), rec(level-1, prefix<<1|1, ks[cut:]))
	}
	return rec(depth, 0, keys)
}

// denseRoot recomputes all 2^depth leaves bottom-up (depth <= 10 only).
func denseRoot(depth int, leaves map[uint64]*big.Int) *big.Int {
	n := 1 << uint(depth)
	cur := make([]*big.Int, n)
	for i := range cur {
		if v, ok := leaves[uint64(i)]; ok {
			cur[i] = v
		} else {
			cur[i] = big.NewInt(0)
		}
	}
	for len(cur) > 1 {
		next := make([]*big.Int, len(cur)/2)
		for i := range next {
			next[i] = ref.H2(cur[2*i], cur[2*i+1])
		}
		cur = next
	}
	return cur[0]
}

func runC18(o *cli.Opts, run *evid.Run) {
	run.Rule("one case = one Update() step of a PRNG history on poseidon_tree.NewTree(d), d=1..32; " +
		"index modes: dense prefix, repeated, first/last leaf, sibling pairs, sparse far-apart, moving an identity to its sibling slot (delete + re-register); values: random, 0 (delete), rewrite same, values used before, small multi-byte values; " +
		"non-trivial = step whose (depth,index,value,previous value) signature is new; oracle = reference sparse tree + from-scratch recomputation from the leaf map")
	run.Assume("iden3 go-iden3-crypto Poseidon is the reference hash", "indices stay inside the tree (0 <= i < 2^depth)")
	histories := o.Pick(6, 60)
	steps := o.Pick(60, 300)
	type job struct{ d, h int }
	var jobs []job
	for d := 1; d <= 32; d++ {
		for h := 0; h < histories; h++ {
			jobs = append(jobs, job{d, h})
		}
	}
	cli.ForEach(len(jobs), 0, func(ji int) {
		j := jobs[ji]
		key := fmt.Sprintf("C18/d=%d/h=%d", j.d, j.h)
		if !run.Wants(key) {
			return
		}
		c18History(run, o.Seed, key, j.d, j.h, steps)
	})
	run.Require("depths covered", 32, 32)
	run.Require("from-scratch recomputations", getInt(run, "scratch_recomputations"), 32)
}

func getInt(run *evid.Run, k string) int { return run.GetInt(k) }

func c18History(run *evid.Run, seed int64, key string, d, h, steps int) {
	rng := gen.RNG(seed, key)
	tree := poseidon_tree.NewTree(d)
	rt := ref.NewTree(d, ref.H2)
	leaves := map[uint64]*big.Int{}
	size := uint64(1) << uint(d)
	var touched []uint64
	type kept struct {
		step  int
		path  []big.Int
		copyP []*big.Int
		root  big.Int
		copyR *big.Int
	}
	var keeps []kept
	// initial root
	r0 := tree.Root()
	if r0.Cmp(rt.Root()) != 0 {
		run.Violate(key+"/step=-1", fmt.Sprintf("empty tree of depth %d has root %s, reference %s", d, r0.Text(16), rt.Root().Text(16)), nil)
	}
	var trace []string
	type planned struct {
		idx uint64
		val *big.Int
	}
	var pending []planned // multi-step operations (e.g. "move an identity to the neighbouring slot")
	var written []planned
	for s := 0; s < steps; s++ {
		var idx uint64
		mode := rng.Intn(8)
		if len(pending) == 0 && len(written) > 0 && rng.Intn(6) == 0 {
			// move: delete an earlier identity and register the same value in the sibling slot (or elsewhere)
			w := written[rng.Intn(len(written))]
			to := w.idx ^ 1
			if rng.Intn(3) == 0 {
				to = rng.Uint64() % size
			}
			pending = append(pending, planned{w.idx, big.NewInt(0)}, planned{to % size, w.val})
		}
		var forced *big.Int
		if len(pending) > 0 {
			idx, forced = pending[0].idx, pending[0].val
			pending = pending[1:]
			mode = -1
		}
		switch {
		case mode == -1:
		case mode == 0 && len(touched) > 0: // repeated index
			idx = touched[rng.Intn(len(touched))]
		case mode == 1: // first / last leaf
			if rng.Intn(2) == 0 {
				idx = 0
			} else {
				idx = size - 1
			}
		case mode == 2 && len(touched) > 0: // sibling / neighbour of a touched leaf
			idx = touched[rng.Intn(len(touched))] ^ (1 << uint(rng.Intn(d)))
		case mode == 3: // dense prefix
			idx = uint64(rng.Intn(16)) % size
		case mode == 4: // near the end
			idx = size - 1 - uint64(rng.Intn(16))%size
		case mode == 5 && d > 1: // around a power of two
			p := uint64(1) << uint(rng.Intn(d))
			idx = (p - 1 + uint64(rng.Intn(3))) % size
		default: // sparse far-apart
			idx = rng.Uint64() % size
		}
		prev := rt.Get(idx)
		var val *big.Int
		switch v := rng.Intn(12); {
		case forced != nil:
			val = new(big.Int).Set(forced)
		case v == 10 && len(written) > 0: // a value used before (possibly in another slot)
			val = new(big.Int).Set(written[rng.Intn(len(written))].val)
		case v == 11: // small multi-byte values
			val = big.NewInt(int64(1 + rng.Intn(1<<uint(8+rng.Intn(17)))))
		case v == 0:
			val = big.NewInt(0)
		case v == 1:
			val = new(big.Int).Set(prev) // rewrite the same value
		case v == 2:
			val = gen.Elem(rng, gen.MagClasses[rng.Intn(len(gen.MagClasses))], ref.R)
		default:
			val = gen.Below(rng, ref.R)
		}
		prevRoot := rt.Root()
		path := tree.Update(int(idx), *new(big.Int).Set(val))
		rt.Set(idx, val)
		leaves[idx] = new(big.Int).Set(val)
		touched = append(touched, idx)
		if val.Sign() != 0 && len(written) < 64 {
			written = append(written, planned{idx, new(big.Int).Set(val)})
		}
		step := fmt.Sprintf("%s/step=%d", key, s)
		desc := fmt.Sprintf("i=%d v=%s prev=%s", idx, val.Text(16), prev.Text(16))
		if len(trace) < 6 {
			trace = append(trace, desc)
		}
		ok := true
		fail := func(what string) {
			ok = false
			run.Violate(step, what, map[string]any{"depth": d, "history": h, "step": s, "index": idx, "value": val.Text(16), "first_steps": trace})
		}
		got := tree.Root()
		if got.Cmp(rt.Root()) != 0 {
			fail(fmt.Sprintf("Root()=%s, reference %s after %s", got.Text(16), rt.Root().Text(16), desc))
		}
		if len(path) != d {
			fail(fmt.Sprintf("Update returned %d siblings at depth %d", len(path), d))
		} else {
			sib := make([]*big.Int, d)
			for i := range path {
				sib[i] = new(big.Int).Set(&path[i])
			}
			if ref.Fold(ref.H2, prev, idx, sib).Cmp(prevRoot) != 0 {
				fail("returned path does not authenticate the previous value against the previous root (" + desc + ")")
			}
			if ref.Fold(ref.H2, val, idx, sib).Cmp(rt.Root()) != 0 {
				fail("returned path does not authenticate the new value against the new root (" + desc + ")")
			}
			refPath := rt.Path(idx)
			for i := range sib {
				if sib[i].Cmp(refPath[i]) != 0 {
					fail(fmt.Sprintf("sibling %d differs from the reference (%s)", i, desc))
					break
				}
			}
			if s%7 == 0 && len(keeps) < 12 {
				k := kept{step: s, path: path, root: got, copyR: new(big.Int).Set(&got)}
				for i := range path {
					k.copyP = append(k.copyP, new(big.Int).Set(&path[i]))
				}
				keeps = append(keeps, k)
			}
		}
		// from-scratch recomputation from the leaf map only
		if len(leaves)*d <= 256 || s%16 == 15 || s == steps-1 {
			sr := scratchRoot(d, leaves)
			run.Add("scratch_recomputations", 1)
			if sr.Cmp(&got) != 0 {
				fail(fmt.Sprintf("Root()=%s but from-scratch recomputation gives %s", got.Text(16), sr.Text(16)))
			}
			if d <= 10 && (s%16 == 15 || s == steps-1) {
				run.Add("dense_recomputations", 1)
				if dr := denseRoot(d, leaves); dr.Cmp(&got) != 0 {
					fail(fmt.Sprintf("Root()=%s but dense recomputation gives %s", got.Text(16), dr.Text(16)))
				}
			}
		}
		// untouched leaves keep their values: an older leaf must still authenticate
		if s%5 == 4 {
			old := touched[rng.Intn(len(touched))]
			p := rt.Path(old)
			tr := tree.Root()
			if ref.Fold(ref.H2, rt.Get(old), old, p).Cmp(&tr) != 0 {
				fail(fmt.Sprintf("older leaf %d no longer authenticates against Root()", old))
			}
			run.Add("old_leaf_probes", 1)
		}
		run.Case(fmt.Sprintf("depth%02d", d), true, fmt.Sprintf("%d %s", d, desc), ok,
			map[string]any{"depth": d, "index": idx, "value": "0x" + val.Text(16), "previous": "0x" + prev.Text(16), "root": "0x" + got.Text(16)})
	}
	// values handed out earlier must not have been mutated by later updates
	for _, k := range keeps {
		for i := range k.path {
			if k.path[i].Cmp(k.copyP[i]) != 0 {
				run.Violate(fmt.Sprintf("%s/step=%d/alias", key, k.step), "a sibling path returned earlier was mutated by later updates", map[string]any{"depth": d, "history": h})
				break
			}
		}
		if k.root.Cmp(k.copyR) != 0 {
			run.Violate(fmt.Sprintf("%s/step=%d/alias", key, k.step), "a root value returned earlier was mutated by later updates", map[string]any{"depth": d, "history": h})
		}
		run.Add("aliasing_probes", 1)
	}
}
