package main

import (
	"bytes"
	"encoding/binary"
	"fmt"
	"io"
	"math/big"
	"os"
	"path/filepath"
	"syscall"
	"sync"
	"time"

	"worldcoin/gnark-mbu/prover"

	"verifmon/internal/cli"
	"verifmon/internal/conv"
	"verifmon/internal/evid"
	"verifmon/internal/gen"
	"verifmon/internal/proc"
	"verifmon/internal/ref"
	"verifmon/internal/sysutil"
)

// reload reads data back through the given reader path.
func reload(o *cli.Opts, data []byte, via string, tag string) (*prover.ProvingSystem, int64, error) {
	switch via {
	case "UnsafeReadFrom":
		ps := new(prover.ProvingSystem)
		n, err := ps.UnsafeReadFrom(bytes.NewReader(data))
		return ps, n, err
	case "UnsafeReadFrom(stream)":
		// a stream that delivers the bytes the way the writers emit them (two 4-byte header words, then pieces of
		// arbitrary size): io.Reader permits short reads, a reader must not take one for the whole field
		pr, pw := io.Pipe()
		go func() {
			sizes := []int{4, 4, 1, 3, 7, 64, 1000}
			off := 0
			for i := 0; off < len(data); i++ {
				n := 1 << 16
				if i < len(sizes) {
					n = sizes[i]
				}
				if off+n > len(data) {
					n = len(data) - off
				}
				if _, err := pw.Write(data[off : off+n]); err != nil {
					return
				}
				off += n
			}
			pw.Close()
		}()
		ps := new(prover.ProvingSystem)
		n, err := ps.UnsafeReadFrom(pr)
		pr.Close()
		return ps, n, err
	case "ReadSystemFromFile(fifo)":
		// the file arrives through a named pipe (`--keys-file <(zstd -dc keys.zst)`): no size, no seeking
		path := filepath.Join(o.Scratch, "c11-"+tag+".fifo")
		if err := syscall.Mkfifo(path, 0o644); err != nil {
			return nil, 0, err
		}
		defer os.Remove(path)
		wdone := make(chan struct{})
		go func() {
			defer close(wdone)
			w, err := os.OpenFile(path, os.O_WRONLY, 0)
			if err != nil {
				return
			}
			w.Write(data)
			w.Close()
		}()
		ps, err := prover.ReadSystemFromFile(path)
		// release a writer the reader never met (reader failed before opening, or stopped reading early)
		if d, e := os.OpenFile(path, os.O_RDONLY|syscall.O_NONBLOCK, 0); e == nil {
			<-wdone
			d.Close()
		} else {
			<-wdone
		}
		return ps, int64(len(data)), err
	default: // ReadSystemFromFile, through a plain path or through links to the file
		path := filepath.Join(o.Scratch, "c11-"+tag+".ps")
		if err := os.WriteFile(path, data, 0o644); err != nil {
			return nil, 0, err
		}
		defer os.Remove(path)
		open := path
		switch via {
		case "ReadSystemFromFile(symlink)":
			open = filepath.Join(o.Scratch, "c11-"+tag+".current")
			if err := os.Symlink(filepath.Base(path), open); err != nil {
				return nil, 0, err
			}
			defer os.Remove(open)
		case "ReadSystemFromFile(hardlink)":
			open = filepath.Join(o.Scratch, "c11-"+tag+".hard")
			if err := os.Link(path, open); err != nil {
				return nil, 0, err
			}
			defer os.Remove(open)
		}
		ps, err := prover.ReadSystemFromFile(open)
		return ps, int64(len(data)), err
	}
}

// sameSystem compares header and canonical part digests.
func sameSystem(a, b *prover.ProvingSystem) string {
	if a.TreeDepth != b.TreeDepth || a.BatchSize != b.BatchSize {
		return fmt.Sprintf("header differs: depth %d/%d batch %d/%d", a.TreeDepth, b.TreeDepth, a.BatchSize, b.BatchSize)
	}
	if b.ProvingKey == nil || b.VerifyingKey == nil || b.ConstraintSystem == nil {
		return "a part is missing after reload"
	}
	ap, av, ac := partDigests(a)
	bp, bv, bc := partDigests(b)
	switch {
	case ap != bp:
		return "proving key differs"
	case av != bv:
		return "verifying key differs"
	case ac != bc:
		return "constraint system differs"
	}
	return ""
}

func runC11(o *cli.Opts, run *evid.Run) {
	run.Rule("one case = one proving system written in one format (compressed WriteTo / raw WriteRawTo / CLI convert-to-raw) and read back through one reader (UnsafeReadFrom / ReadSystemFromFile): header, canonical digests of pk, vk and constraint system must equal the original's, proofs must cross-verify between original and reloaded system, reported byte counts must equal the file size; " +
		"real insertion/deletion systems plus many small independent systems with PRNG dimensions (depth 1..32, batch 1..min(2^depth,65536), depth != batch); non-trivial = distinct (system, format, reader)")
	run.Assume("canonical digest = SHA-256 of WriteRawTo (keys) / WriteTo (constraint system) of the in-memory objects")
	// (b) many small systems
	nSmall := o.Pick(150, 5000)
	cli.ForEach(nSmall, 0, func(i int) {
		key := fmt.Sprintf("C11/small/%d", i)
		if !run.Wants(key) {
			return
		}
		r := gen.RNG(o.Seed, key)
		ps, k, err := smallSystem(r)
		if err != nil {
			run.Violate(key, "cannot build a small system: "+err.Error(), nil)
			return
		}
		x := gen.Below(r, ref.R)
		proof, y, err := smallProve(ps, k, x)
		if err != nil {
			run.Violate(key, "monitor bug: cannot prove the trivial statement: "+err.Error(), nil)
			return
		}
		for _, raw := range []bool{true, false} {
			data, n, err := serialise(ps, raw)
			sample := map[string]any{"depth": ps.TreeDepth, "batch": ps.BatchSize, "format": fmtName(raw), "bytes": len(data), "constraints": ps.ConstraintSystem.GetNbConstraints()}
			ck := fmt.Sprintf("%s/%s", key, fmtName(raw))
			ok := true
			fail := func(what string) { ok = false; run.Violate(ck, what, sample) }
			if err != nil {
				fail("write failed: " + err.Error())
				continue
			}
			if n != int64(len(data)) {
				fail(fmt.Sprintf("writer reported %d bytes, wrote %d", n, len(data)))
			}
			// (the byte layout of the file is not asserted: the property is about what a reload restores)
			if len(data) >= 8 && binary.BigEndian.Uint32(data[:4]) == ps.TreeDepth && binary.BigEndian.Uint32(data[4:8]) == ps.BatchSize {
				run.Add("files_with_depth_batch_header", 1)
			}
			via := []string{"UnsafeReadFrom", "ReadSystemFromFile"}[i%2]
			if i%2 == 0 && (i/2)%3 == 1 {
				via = "UnsafeReadFrom(stream)"
			}
			if i%2 == 1 && (i/2)%2 == 1 { // every other file read goes through a link or a pipe
				via = []string{"ReadSystemFromFile(symlink)", "ReadSystemFromFile(fifo)", "ReadSystemFromFile(hardlink)"}[(i/4)%3]
			}
			back, rn, err := reload(o, data, via, fmt.Sprint(i, raw))
			if err != nil {
				fail(via + " rejects a file just written: " + err.Error())
				continue
			}
			if rn != int64(len(data)) {
				fail(fmt.Sprintf("%s reported %d bytes read of a %d-byte file", via, rn, len(data)))
			}
			if d := sameSystem(ps, back); d != "" {
				fail("reloaded system differs: " + d)
				continue
			}
			// interchangeable: proofs cross-verify
			if err := smallVerify(back, k, proof, y); err != nil {
				fail("reloaded system rejects a proof of the original: " + err.Error())
			}
			p2, y2, err := smallProve(back, k, x)
			if err != nil {
				fail("reloaded system cannot prove: " + err.Error())
			} else if err := smallVerify(ps, k, p2, y2); err != nil {
				fail("original rejects a proof made by the reloaded system: " + err.Error())
			}
			if err := smallVerify(back, k, proof, new(big.Int).Add(y, big.NewInt(1))); err == nil {
				fail("reloaded system accepts a proof for another public input")
			}
			run.Case("small/"+fmtName(raw)+"/"+via, true, ck, ok, sample)
		}
	})
	run.Stage("small")
	// (b2) one path, overwritten by independent systems of identical dimensions (and therefore identical
	// byte length): every load must return the system that is in the file now
	{
		shared := filepath.Join(o.Scratch, "c11-shared.ps")
		r := gen.RNG(o.Seed, "C11/overwrite")
		var prevVK string
		for i := 0; i < o.Pick(12, 100); i++ {
			key := fmt.Sprintf("C11/overwrite/%d", i)
			if !run.Wants(key) {
				continue
			}
			ps, k, err := smallSystemK(r, 3, 7, 5) // same circuit, depth and batch every time: same file size
			if err != nil {
				continue
			}
			raw := i%4 < 2
			data, _, _ := serialise(ps, raw)
			os.WriteFile(shared, data, 0o644)
			back, err := prover.ReadSystemFromFile(shared)
			ok := true
			if err != nil {
				ok = false
				run.Violate(key, "ReadSystemFromFile rejects a file just written: "+err.Error(), nil)
			} else {
				if d := sameSystem(ps, back); d != "" {
					ok = false
					run.Violate(key, "a path overwritten with another proving system of the same size was loaded as something else: "+d, map[string]any{"bytes": len(data), "format": fmtName(raw)})
				} else {
					x := gen.Below(r, ref.R)
					if proof, y, err := smallProve(ps, k, x); err == nil {
						if err := smallVerify(back, k, proof, y); err != nil {
							ok = false
							run.Violate(key, "the system loaded from an overwritten path rejects a proof of the system that was written: "+err.Error(), nil)
						}
					}
				}
				_, vk, _ := partDigests(back)
				if vk == prevVK {
					ok = false
					run.Violate(key, "two independent systems written to the same path load as the same verifying key", nil)
				}
				prevVK = vk
			}
			run.Case("small/overwrite-same-path", true, key, ok, map[string]any{"format": fmtName(raw), "bytes": len(data)})
		}
		os.Remove(shared)
	}
	// (b3) one ProvingSystem VALUE loaded from one file and then from another (a long-lived holder that reloads
	// its keys): after each load it must be the system that was just read — header, digests, and it must prove
	{
		var holder prover.ProvingSystem
		r := gen.RNG(o.Seed, "C11/reused-value")
		for i := 0; i < o.Pick(16, 120); i++ {
			key := fmt.Sprintf("C11/reused-value/%d", i)
			if !run.Wants(key) {
				continue
			}
			// hint-bearing circuits of varying size, plausible header
			ps, k, err := smallSystemK(r, 1+r.Intn(6), uint32(1+r.Intn(32)), uint32(40+r.Intn(64)), true)
			if err != nil {
				continue
			}
			raw := i%2 == 0
			data, _, _ := serialise(ps, raw)
			ok := true
			if _, err := holder.UnsafeReadFrom(bytes.NewReader(data)); err != nil {
				ok = false
				run.Violate(key, "UnsafeReadFrom into a ProvingSystem value that had been loaded before fails: "+err.Error(), nil)
			} else if d := sameSystem(ps, &holder); d != "" {
				ok = false
				run.Violate(key, "a ProvingSystem value re-loaded from another file is not the system in that file: "+d, map[string]any{"load_number": i})
			} else {
				x := gen.Below(r, ref.R)
				if p2, y2, err := smallProve(&holder, k, x); err != nil {
					ok = false
					run.Violate(key, "a ProvingSystem value re-loaded from another file cannot prove: "+err.Error(), map[string]any{"load_number": i})
				} else if err := smallVerify(ps, k, p2, y2); err != nil {
					ok = false
					run.Violate(key, "the original rejects a proof made by a re-loaded ProvingSystem value: "+err.Error(), nil)
				}
			}
			run.Case("small/reused-value", true, key, ok, map[string]any{"load_number": i, "format": fmtName(raw), "constraints": ps.ConstraintSystem.GetNbConstraints()})
		}
	}
	run.Stage("overwrite")
	// (a) real systems
	type dimM struct {
		mode string
		d, b int
	}
	dims := []dimM{{"insertion", 3, 2}, {"deletion", 2, 5}}
	if o.Thorough() {
		dims = append(dims, dimM{"insertion", 10, 3}, dimM{"deletion", 20, 1}, dimM{"insertion", 32, 1}, dimM{"deletion", 31, 2})
	}
	bin, berr := proc.BuildBinary(o.Out, o.Scratch, o.Repo, false)
	if berr != nil {
		run.Violate("C11/build", berr.Error(), nil)
	}
	var realHolder prover.ProvingSystem
	var realHolderMu sync.Mutex
	cli.ForEach(len(dims), 2, func(di int) {
		dm := dims[di]
		key := fmt.Sprintf("C11/real/%s/d=%d/b=%d", dm.mode, dm.d, dm.b)
		if !run.Wants(key) && run.Only != "" && len(run.Only) < len(key) {
			return
		}
		ps, err := sysutil.Setup(dm.mode, dm.d, dm.b)
		if err != nil {
			run.Violate(key, "setup failed: "+err.Error(), nil)
			return
		}
		r := gen.RNG(o.Seed, key)
		prove := func(s *prover.ProvingSystem) (*prover.Proof, *big.Int, error) {
			if dm.mode == "insertion" {
				p := sysutil.InsParams(sysutil.ValidIns(r, dm.d, dm.b))
				pr, err := s.ProveInsertion(conv.ToRepoIns(p))
				return pr, p.InputHash, err
			}
			p := sysutil.DelParams(sysutil.ValidDel(r, dm.d, dm.b))
			pr, err := s.ProveDeletion(conv.ToRepoDel(p))
			return pr, p.InputHash, err
		}
		verify := func(s *prover.ProvingSystem, h *big.Int, pr *prover.Proof) error {
			if dm.mode == "insertion" {
				return s.VerifyInsertion(*h, pr)
			}
			return s.VerifyDeletion(*h, pr)
		}
		origProof, origHash, err := prove(ps)
		if err != nil {
			run.Violate(key, "original system cannot prove a valid batch: "+err.Error(), nil)
			return
		}
		type variant struct {
			name string
			data []byte
		}
		var variants []variant
		for _, raw := range []bool{true, false} {
			data, n, err := serialise(ps, raw)
			if err != nil {
				run.Violate(key+"/"+fmtName(raw), "write failed: "+err.Error(), nil)
				continue
			}
			if n != int64(len(data)) {
				run.Violate(key+"/"+fmtName(raw), fmt.Sprintf("writer reported %d bytes, wrote %d", n, len(data)), nil)
			}
			variants = append(variants, variant{fmtName(raw), data})
			if !raw && berr == nil { // CLI conversion compressed -> raw
				in := filepath.Join(o.Scratch, fmt.Sprintf("c11-%d-compressed.ps", di))
				out := filepath.Join(o.Scratch, fmt.Sprintf("c11-%d-converted.ps", di))
				os.WriteFile(in, data, 0o644)
				res := proc.Run(bin, nil, 10*time.Minute, nil, "convert-to-raw", "--input", in, "--output", out)
				os.Remove(in)
				if res.Exit != 0 || res.TimedOut {
					run.Violate(key+"/convert", fmt.Sprintf("convert-to-raw exits %d: %s", res.Exit, lastLine(res.Stderr)), nil)
				} else if conv, err := os.ReadFile(out); err == nil {
					variants = append(variants, variant{"converted-to-raw", conv})
					// conversion must produce exactly the raw serialisation
					rawData, _, _ := serialise(ps, true)
					if !bytes.Equal(conv, rawData) {
						run.Violate(key+"/convert", "convert-to-raw output differs from WriteRawTo of the same system", nil)
					}
				}
				os.Remove(out)
				// in-place conversion (same input and output path)
				inplace := filepath.Join(o.Scratch, fmt.Sprintf("c11-%d-inplace.ps", di))
				os.WriteFile(inplace, data, 0o644)
				res = proc.Run(bin, nil, 10*time.Minute, nil, "convert-to-raw", "--input", inplace, "--output", inplace)
				if res.Exit != 0 || res.TimedOut {
					run.Violate(key+"/convert-in-place", fmt.Sprintf("convert-to-raw with the same input and output path exits %d: %s", res.Exit, lastLine(res.Stderr)), nil)
				} else if conv, err := os.ReadFile(inplace); err == nil {
					variants = append(variants, variant{"converted-in-place", conv})
				}
				os.Remove(inplace)
			}
		}
		// the shared holder: whatever real system was loaded into it before, after this load it must be this one and prove
		if len(variants) > 0 {
			realHolderMu.Lock()
			if _, err := realHolder.UnsafeReadFrom(bytes.NewReader(variants[0].data)); err != nil {
				run.Violate(key+"/reused-value", "UnsafeReadFrom into a previously loaded ProvingSystem value fails: "+err.Error(), nil)
			} else if d := sameSystem(ps, &realHolder); d != "" {
				run.Violate(key+"/reused-value", "a ProvingSystem value re-loaded from another keys file is not the system in that file: "+d, nil)
			} else if p2, h2, err := prove(&realHolder); err != nil {
				run.Violate(key+"/reused-value", "a ProvingSystem value re-loaded from another keys file cannot prove a valid batch: "+err.Error(), nil)
			} else if err := verify(ps, h2, p2); err != nil {
				run.Violate(key+"/reused-value", "the original rejects a proof made by a re-loaded ProvingSystem value: "+err.Error(), nil)
			}
			run.Case("real/reused-value", true, key+"/reused-value", true, map[string]any{"mode": dm.mode, "depth": dm.d, "batch": dm.b})
			realHolderMu.Unlock()
		}
		for vi, v := range variants {
			for _, via := range []string{"UnsafeReadFrom", "ReadSystemFromFile"} {
				ck := fmt.Sprintf("%s/%s/%s", key, v.name, via)
				sample := map[string]any{"mode": dm.mode, "depth": dm.d, "batch": dm.b, "format": v.name, "reader": via, "bytes": len(v.data)}
				ok := true
				fail := func(what string) { ok = false; run.Violate(ck, what, sample) }
				back, rn, err := reload(o, v.data, via, fmt.Sprint(di, vi))
				if err != nil {
					fail(via + " rejects a file just written: " + err.Error())
					continue
				}
				if rn != int64(len(v.data)) {
					fail(fmt.Sprintf("%s reported %d bytes read of a %d-byte file", via, rn, len(v.data)))
				}
				if back.TreeDepth != uint32(dm.d) || back.BatchSize != uint32(dm.b) {
					fail(fmt.Sprintf("reloaded depth/batch = %d/%d, expected %d/%d", back.TreeDepth, back.BatchSize, dm.d, dm.b))
				}
				if d := sameSystem(ps, back); d != "" {
					fail("reloaded system differs: " + d)
					continue
				}
				if err := verify(back, origHash, origProof); err != nil {
					fail("reloaded system rejects a proof of the original: " + err.Error())
				}
				if err := verify(back, new(big.Int).Add(origHash, big.NewInt(1)), origProof); err == nil {
					fail("reloaded system accepts the proof for hash+1")
				}
				if via == "UnsafeReadFrom" {
					p2, h2, err := prove(back)
					if err != nil {
						fail("reloaded system cannot prove a valid batch: " + err.Error())
					} else if err := verify(ps, h2, p2); err != nil {
						fail("original rejects a proof made by the reloaded system: " + err.Error())
					}
				}
				run.Case("real/"+v.name+"/"+via, true, ck, ok, sample)
			}
		}
	})
	run.Stage("real")
	run.Require("reloads through a symlink, a hard link or a named pipe", run.ClassTally("small/raw/ReadSystemFromFile(symlink)").Cases+run.ClassTally("small/compressed/ReadSystemFromFile(fifo)").Cases+run.ClassTally("small/raw/ReadSystemFromFile(hardlink)").Cases, 10)
	run.Require("reloads from a stream with short reads", run.ClassTally("small/raw/UnsafeReadFrom(stream)").Cases, 10)
	smallRaw := 0
	for _, via := range []string{"UnsafeReadFrom", "UnsafeReadFrom(stream)", "ReadSystemFromFile", "ReadSystemFromFile(symlink)", "ReadSystemFromFile(fifo)", "ReadSystemFromFile(hardlink)"} {
		smallRaw += run.ClassTally("small/raw/" + via).Cases
	}
	run.Require("small systems round-tripped", smallRaw, 100)
	run.Require("real systems via CLI conversion", run.ClassTally("real/converted-to-raw/UnsafeReadFrom").Cases, 2)
	run.Require("real compressed round trips", run.ClassTally("real/compressed/ReadSystemFromFile").Cases, 2)
}
