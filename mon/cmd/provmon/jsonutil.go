package main

import (
	"bytes"
	"encoding/json"
)

// replaceField re-encodes a JSON object with the raw text `raw` as the value of field.
func replaceField(doc []byte, field, raw string) []byte {
	var m map[string]json.RawMessage
	if err := json.Unmarshal(doc, &m); err != nil {
		panic(err)
	}
	// build by hand so that raw may be any token sequence (even invalid JSON)
	var buf bytes.Buffer
	buf.WriteByte('{')
	first := true
	for k, v := range m {
		if !first {
			buf.WriteByte(',')
		}
		first = false
		kb, _ := json.Marshal(k)
		buf.Write(kb)
		buf.WriteByte(':')
		if k == field {
			buf.WriteString(raw)
		} else {
			buf.Write(v)
		}
	}
	buf.WriteByte('}')
	return buf.Bytes()
}

func replaceToken(doc []byte, token, raw string) []byte {
	return bytes.Replace(doc, []byte(token), []byte(raw), 1)
}

// nullToEmpty rewrites `"deletionIndices":null` to an empty array for the independent reader.
func nullToEmpty(doc []byte) []byte {
	return bytes.Replace(doc, []byte(`"deletionIndices":null`), []byte(`"deletionIndices":[]`), 1)
}
