package main

import (
	"fmt"
	"math/big"
	"sync"

	"github.com/consensys/gnark/backend"
	"github.com/consensys/gnark/backend/hint"
	"github.com/consensys/gnark/frontend"
	"github.com/reilabs/gnark-lean-extractor/v2/abstractor"

	"worldcoin/gnark-mbu/prover/poseidon"

	"verifmon/internal/cases"
	"verifmon/internal/cli"
	"verifmon/internal/ref"
	"verifmon/internal/rmon"
)

var p47 = big.NewInt(47)

// captureCircuit exposes the value of Poseidon2(A,B) to a hint function, which
// is how the monitor measures the gadget's own hash table over the tiny field.
type captureCircuit struct {
	A, B frontend.Variable
}

var captureMu sync.Mutex
var captured = map[[2]int64]int64{}

func captureHint(_ *big.Int, in []*big.Int, out []*big.Int) error {
	captureMu.Lock()
	captured[[2]int64{in[0].Int64(), in[1].Int64()}] = in[2].Int64()
	captureMu.Unlock()
	out[0].Set(in[2])
	return nil
}

func (c *captureCircuit) Define(api frontend.API) error {
	h := abstractor.Call(api, poseidon.Poseidon2{In1: c.A, In2: c.B})
	res, err := api.Compiler().NewHint(captureHint, 1, c.A, c.B, h)
	if err != nil {
		return err
	}
	api.AssertIsEqual(res[0], h)
	return nil
}

// f47Table measures Poseidon2 over F47 from the standalone gadget: 47x47 solves.
func f47Table() (ref.Hasher, error) {
	sys, err := rmon.Compile(p47, &captureCircuit{})
	if err != nil {
		return nil, err
	}
	h := rmon.Hints{hint.UUID(captureHint): captureHint}
	var firstErr error
	var mu sync.Mutex
	cli.ForEach(47*47, 0, func(i int) {
		a, b := int64(i/47), int64(i%47)
		res := sys.Solve(&captureCircuit{A: a, B: b}, h)
		if !res.Accepted {
			mu.Lock()
			firstErr = fmt.Errorf("capture solve failed for (%d,%d): %v", a, b, res.Err)
			mu.Unlock()
		}
	})
	if firstErr != nil {
		return nil, firstErr
	}
	if len(captured) != 47*47 {
		return nil, fmt.Errorf("captured %d of %d table entries", len(captured), 47*47)
	}
	table := make([]int64, 47*47)
	for k, v := range captured {
		table[k[0]*47+k[1]] = v
	}
	return func(a, b *big.Int) *big.Int {
		x := new(big.Int).Mod(a, p47).Int64()
		y := new(big.Int).Mod(b, p47).Int64()
		return big.NewInt(table[x*47+y])
	}, nil
}

func f47Env() (cases.Env, error) {
	h, err := f47Table()
	if err != nil {
		return cases.Env{}, err
	}
	return cases.Env{Mod: p47, H: h}, nil
}

// odometer enumerates all 47^k assignments of k hint output wires.
func odometer(k int, fn func(vals []int64) bool) {
	vals := make([]int64, k)
	for {
		if !fn(vals) {
			return
		}
		i := 0
		for i < k {
			vals[i]++
			if vals[i] < 47 {
				break
			}
			vals[i] = 0
			i++
		}
		if i == k {
			return
		}
	}
}

// hintWire identifies one prover-chosen value of the compiled system: output idx of the call of hint `id` with
// nOut outputs on input `in` (as seen in an honest solve of the same assignment).
type hintWire struct {
	id   hint.ID
	nOut int
	in   string
	idx  int
}

// discoverHintWires runs one honest solve with recording wrappers around EVERY registered hint function (gnark's
// own and any the code under test registers) and returns every hint output wire, whatever hints and widths the
// circuit under test uses.
func discoverHintWires(sys *rmon.Sys, as frontend.Circuit) []hintWire {
	var mu sync.Mutex
	var wires []hintWire
	seen := map[string]bool{}
	sys.SolveWith(as, rmon.WrapAll(func(id hint.ID, honest hint.Function) hint.Function {
		return func(q *big.Int, in []*big.Int, out []*big.Int) error {
			ik := inKey(in)
			key := fmt.Sprintf("%v|%d|%s", id, len(out), ik)
			mu.Lock()
			if !seen[key] {
				seen[key] = true
				for i := range out {
					wires = append(wires, hintWire{id, len(out), ik, i})
				}
			}
			mu.Unlock()
			return honest(q, in, out)
		}
	}))
	return wires
}

// odometerHints fixes the chosen wires to vals (others stay honest).
func odometerHints(chosen []hintWire, vals []int64) backend.ProverOption {
	return rmon.WrapAll(func(id hint.ID, honest hint.Function) hint.Function {
		mine := false
		for _, w := range chosen {
			if w.id == id {
				mine = true
			}
		}
		if !mine {
			return honest
		}
		return func(q *big.Int, in []*big.Int, out []*big.Int) error {
			if err := honest(q, in, out); err != nil {
				return err
			}
			ik := ""
			for k, w := range chosen {
				if w.id == id && w.nOut == len(out) {
					if ik == "" {
						ik = inKey(in)
					}
					if w.in == ik {
						out[w.idx].SetInt64(vals[k])
					}
				}
			}
			return nil
		}
	})
}

// chooseWires picks at most max wires for exhaustive enumeration: the low digits of each decomposition first
// (they select the leaf), then the inverses, then higher digits.
func chooseWires(all []hintWire, max int) []hintWire {
	if len(all) <= max {
		return all
	}
	var out []hintWire
	for pass := 0; len(out) < max && pass < 64; pass++ {
		for _, w := range all {
			if len(out) < max && w.idx == pass {
				out = append(out, w)
			}
		}
	}
	return out
}

// fixedNBits answers every NBits call having len(digits) outputs with digits.
func fixedNBits(digits []int64) hint.Function {
	return func(q *big.Int, in []*big.Int, out []*big.Int) error {
		if len(out) != len(digits) {
			return rmon.HonestNBits(q, in, out)
		}
		for i := range out {
			out[i].SetInt64(digits[i])
		}
		return nil
	}
}

func fixedInvZero(v int64) hint.Function {
	return func(q *big.Int, in []*big.Int, out []*big.Int) error {
		out[0].SetInt64(v)
		return nil
	}
}
