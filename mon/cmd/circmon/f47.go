package main

import (
	"fmt"
	"math/big"
	"sync"

	"github.com/consensys/gnark/backend/hint"
	"github.com/consensys/gnark/frontend"
	"github.com/reilabs/gnark-lean-extractor/v2/abstractor"

	"worldcoin/gnark-mbu/prover/poseidon"

	"verifmon/internal/cases"
	"verifmon/internal/cli"
	"verifmon/internal/ref"
	"verifmon/internal/rmon"
)

var p47 = big.NewInt(47)

// captureCircuit exposes the value of Poseidon2(A,B) to a hint function, which
// is how the monitor measures the gadget's own hash table over the tiny field.
type captureCircuit struct {
	A, B frontend.Variable
}

var captureMu sync.Mutex
var captured = map[[2]int64]int64{}

func captureHint(_ *big.Int, in []*big.Int, out []*big.Int) error {
	captureMu.Lock()
	captured[[2]int64{in[0].Int64(), in[1].Int64()}] = in[2].Int64()
	captureMu.Unlock()
	out[0].Set(in[2])
	return nil
}

func (c *captureCircuit) Define(api frontend.API) error {
	h := abstractor.Call(api, poseidon.Poseidon2{In1: c.A, In2: c.B})
	res, err := api.Compiler().NewHint(captureHint, 1, c.A, c.B, h)
	if err != nil {
		return err
	}
	api.AssertIsEqual(res[0], h)
	return nil
}

// f47Table measures Poseidon2 over F47 from the standalone gadget: 47x47 solves.
func f47Table() (ref.Hasher, error) {
	sys, err := rmon.Compile(p47, &captureCircuit{})
	if err != nil {
		return nil, err
	}
	h := rmon.Hints{hint.UUID(captureHint): captureHint}
	var firstErr error
	var mu sync.Mutex
	cli.ForEach(47*47, 0, func(i int) {
		a, b := int64(i/47), int64(i%47)
		res := sys.Solve(&captureCircuit{A: a, B: b}, h)
		if !res.Accepted {
			mu.Lock()
			firstErr = fmt.Errorf("capture solve failed for (%d,%d): %v", a, b, res.Err)
			mu.Unlock()
		}
	})
	if firstErr != nil {
		return nil, firstErr
	}
	if len(captured) != 47*47 {
		return nil, fmt.Errorf("captured %d of %d table entries", len(captured), 47*47)
	}
	table := make([]int64, 47*47)
	for k, v := range captured {
		table[k[0]*47+k[1]] = v
	}
	return func(a, b *big.Int) *big.Int {
		x := new(big.Int).Mod(a, p47).Int64()
		y := new(big.Int).Mod(b, p47).Int64()
		return big.NewInt(table[x*47+y])
	}, nil
}

func f47Env() (cases.Env, error) {
	h, err := f47Table()
	if err != nil {
		return cases.Env{}, err
	}
	return cases.Env{Mod: p47, H: h}, nil
}

// odometer enumerates all 47^k assignments of k hint output wires.
func odometer(k int, fn func(vals []int64) bool) {
	vals := make([]int64, k)
	for {
		if !fn(vals) {
			return
		}
		i := 0
		for i < k {
			vals[i]++
			if vals[i] < 47 {
				break
			}
			vals[i] = 0
			i++
		}
		if i == k {
			return
		}
	}
}

// fixedNBits answers every NBits call having len(digits) outputs with digits.
func fixedNBits(digits []int64) hint.Function {
	return func(q *big.Int, in []*big.Int, out []*big.Int) error {
		if len(out) != len(digits) {
			return rmon.HonestNBits(q, in, out)
		}
		for i := range out {
			out[i].SetInt64(digits[i])
		}
		return nil
	}
}

func fixedInvZero(v int64) hint.Function {
	return func(q *big.Int, in []*big.Int, out []*big.Int) error {
		out[0].SetInt64(v)
		return nil
	}
}
