package main

import (
	"encoding/binary"
	"fmt"
	"math/big"
	"math/rand"
	"strings"

	"github.com/consensys/gnark/frontend"

	"worldcoin/gnark-mbu/prover"

	"verifmon/internal/cases"
	"verifmon/internal/cli"
	"verifmon/internal/evid"
	"verifmon/internal/gen"
	"verifmon/internal/ref"
	"verifmon/internal/rmon"
)

// batchC03 is a valid batch of either mode in a uniform shape.
type batchC03 struct {
	ins    bool
	depth  int
	idx    []uint32   // insertion: [start]; deletion: indices
	vals   []*big.Int // insertion: pre, post, ids...; deletion: pre, post
	items  []*big.Int // deletion only (not hashed)
	proofs [][]*big.Int
	origin string
	bigIdx []*big.Int // indices as field values (may exceed 32 bits in negative classes)
}

func (b *batchC03) names() []string {
	n := []string{"preRoot", "postRoot"}
	if b.ins {
		for i := range b.vals[2:] {
			n = append(n, fmt.Sprintf("commitment[%d]", i))
		}
	}
	return n
}

// pack is the on-chain byte string for explicit (possibly forged, < 2^256) values.
func (b *batchC03) pack(idx []uint32, vals []*big.Int) []byte {
	var out []byte
	if b.ins {
		out = binary.BigEndian.AppendUint32(out, idx[0])
		for _, v := range vals {
			out = append(out, v.FillBytes(make([]byte, 32))...)
		}
		return out
	}
	for _, i := range idx {
		out = binary.BigEndian.AppendUint32(out, i)
	}
	for _, v := range vals {
		out = append(out, v.FillBytes(make([]byte, 32))...)
	}
	return out
}

func (b *batchC03) hash() *big.Int { return ref.HashToField(b.pack(b.idx, b.vals)) }

func (b *batchC03) assignment(hash *big.Int) frontend.Circuit {
	if b.ins {
		return &prover.InsertionMbuCircuit{InputHash: hash, StartIndex: b.bigIdx[0], PreRoot: b.vals[0], PostRoot: b.vals[1],
			IdComms: assign(b.vals[2:]), MerkleProofs: assignss(b.proofs)}
	}
	return &prover.DeletionMbuCircuit{InputHash: hash, DeletionIndices: assign(b.bigIdx), PreRoot: b.vals[0], PostRoot: b.vals[1],
		IdComms: assign(b.items), MerkleProofs: assignss(b.proofs)}
}

func (b *batchC03) describe() map[string]any {
	m := map[string]any{"mode": map[bool]string{true: "insertion", false: "deletion"}[b.ins], "depth": b.depth, "indices": b.idx, "origin": b.origin}
	for i, n := range b.names() {
		m[n] = "0x" + b.vals[i].Text(16)
	}
	return m
}

func fromIns(c *cases.Ins) *batchC03 {
	b := &batchC03{ins: true, depth: c.Depth, idx: []uint32{low32(c.Start)}, vals: append([]*big.Int{c.Pre, c.Post}, c.Ids...), proofs: c.Proofs, origin: c.Class, bigIdx: []*big.Int{c.Start}}
	return b
}

func fromDel(c *cases.Del) *batchC03 {
	b := &batchC03{depth: c.Depth, vals: []*big.Int{c.Pre, c.Post}, items: c.Items, proofs: c.Proofs, origin: c.Class, bigIdx: c.Indices}
	for _, v := range c.Indices {
		b.idx = append(b.idx, low32(v))
	}
	return b
}

func leadingZeroBytes(v *big.Int) int { return 32 - (v.BitLen()+7)/8 }

// validBatch draws a valid batch; want selects a flavour.
func validBatch(r *rand.Rand, ins bool, d, bsz int, want string) *batchC03 {
	for tries := 0; tries < 4000; tries++ {
		if ins {
			cl := []string{"valid/first-free", "valid/last-leaves", "valid/random-pos", "valid/after-occupied", "valid/commitment-zero", "valid/commitment-extremes"}[r.Intn(6)]
			if want == "zero-commitment" {
				cl = "valid/commitment-zero"
			}
			if want == "last-index" {
				cl = "valid/last-leaves"
			}
			c, ok := cases.BN254.Insertion(r, cl, d, bsz)
			if !ok || !c.Valid {
				continue
			}
			if want == "lz-root" && leadingZeroBytes(c.Pre) == 0 && leadingZeroBytes(c.Post) == 0 {
				continue
			}
			if want == "lz-commitment" {
				ids := append([]*big.Int{}, c.Ids...)
				ids[r.Intn(bsz)] = gen.WithLeadingZeroBytes(r, 1+r.Intn(31), ref.R)
				c2, ok := cases.BN254.InsertionWithIds(r, d, ids)
				if !ok || !c2.Valid {
					continue
				}
				c = c2
			}
			return fromIns(c)
		}
		cl := []string{"valid/members", "valid/mixed-padding", "valid/padding-garbage", "valid/padding-extremes", "valid/all-padding", "valid/empty-leaf-zero"}[r.Intn(6)]
		if want == "members" {
			cl = "valid/members"
		}
		c, ok := cases.BN254.Deletion(r, cl, d, bsz)
		if !ok || !c.Valid {
			continue
		}
		if want == "lz-root" && leadingZeroBytes(c.Pre) == 0 && leadingZeroBytes(c.Post) == 0 {
			continue
		}
		return fromDel(c)
	}
	return nil
}

func reverseBytes(b []byte) []byte {
	o := make([]byte, len(b))
	for i := range b {
		o[i] = b[len(b)-1-i]
	}
	return o
}

// alternativeEncodings returns byte strings the contract does NOT hash.
func (b *batchC03) alternativeEncodings() map[string][]byte {
	out := map[string][]byte{}
	u32 := func(v uint32) []byte { return binary.BigEndian.AppendUint32(nil, v) }
	w := func(v *big.Int) []byte { return v.FillBytes(make([]byte, 32)) }
	var idxBytes, valBytes [][]byte
	for _, i := range b.idx {
		idxBytes = append(idxBytes, u32(i))
	}
	for _, v := range b.vals {
		valBytes = append(valBytes, w(v))
	}
	cat := func(parts ...[][]byte) []byte {
		var o []byte
		for _, p := range parts {
			for _, x := range p {
				o = append(o, x...)
			}
		}
		return o
	}
	swapped := append([][]byte{valBytes[1], valBytes[0]}, valBytes[2:]...)
	if b.ins {
		out["roots-swapped"] = cat(idxBytes, swapped)
		out["index-last"] = cat(valBytes, idxBytes)
		if len(valBytes) > 3 {
			rev := append([][]byte{}, valBytes[:2]...)
			for i := len(valBytes) - 1; i >= 2; i-- {
				rev = append(rev, valBytes[i])
			}
			out["commitments-reversed"] = cat(idxBytes, rev)
		}
	} else {
		out["roots-swapped"] = cat(idxBytes, swapped)
		out["roots-first"] = cat(valBytes, idxBytes)
		if len(idxBytes) > 1 {
			var rev [][]byte
			for i := len(idxBytes) - 1; i >= 0; i-- {
				rev = append(rev, idxBytes[i])
			}
			out["indices-reversed"] = cat(rev, valBytes)
		}
	}
	var le [][]byte
	for _, x := range idxBytes {
		le = append(le, reverseBytes(x))
	}
	var leV [][]byte
	for _, x := range valBytes {
		leV = append(leV, reverseBytes(x))
	}
	if b.ins {
		out["little-endian"] = cat(le, leV)
	} else {
		out["little-endian"] = cat(le, leV)
	}
	var wide [][]byte
	for _, i := range b.idx {
		wide = append(wide, w(new(big.Int).SetUint64(uint64(i))))
	}
	if b.ins {
		out["index-as-uint256"] = cat(wide, valBytes)
	} else {
		out["index-as-uint256"] = cat(wide, valBytes)
	}
	var minimal [][]byte
	for _, v := range b.vals {
		minimal = append(minimal, v.Bytes())
	}
	out["minimal-length-values"] = cat(idxBytes, minimal)
	return out
}

func runC03(o *cli.Opts, run *evid.Run) {
	run.Rule("one case = one solve of the full compiled circuit (BuildR1CSInsertion/Deletion) with a chosen public input: the keccak of the canonical on-chain packing of the witness's own values (must accept for a valid batch), of a packing with one field perturbed, of another valid batch, of an alternative encoding (re-ordered, little-endian, wide indices, unpadded), or — with the bit-decomposition hint replaced — of the forged bytes v+k*r / another value / non-boolean digits (all must reject); non-trivial = distinct (dimension, witness, public input, hint strategy)")
	run.Assume("golang.org/x/crypto/sha3 legacy Keccak-256 and the packing written from the property statement are the on-chain hash", "batch validity decided by the C01/C02 reference specs")
	type dimM struct {
		ins  bool
		d, b int
	}
	// (2,5)/(2,18): two Keccak blocks; (3,7)/(1,52): three blocks (292 resp. 272 packed bytes)
	dims := []dimM{{true, 1, 1}, {true, 3, 2}, {true, 2, 5}, {false, 1, 1}, {false, 3, 2}, {false, 2, 18}, {true, 3, 7}, {false, 1, 52}}
	if o.Thorough() {
		dims = append(dims, dimM{true, 4, 12}, dimM{false, 2, 90}, dimM{true, 8, 3}, dimM{true, 20, 1}, dimM{true, 32, 1}, dimM{false, 8, 3}, dimM{false, 20, 1}, dimM{false, 31, 1})
	}
	nValid := o.Pick(8, 30)
	cli.ForEach(len(dims), 3, func(di int) {
		dm := dims[di]
		mode := map[bool]string{true: "ins", false: "del"}[dm.ins]
		dkey := fmt.Sprintf("C03/%s/d=%d/b=%d", mode, dm.d, dm.b)
		if !run.Wants(dkey) && !strings.HasPrefix(run.Only, dkey) {
			return
		}
		var sys *rmon.Sys
		if dm.ins {
			ccs, err := prover.BuildR1CSInsertion(uint32(dm.d), uint32(dm.b))
			if err != nil {
				run.Violate(dkey, "BuildR1CSInsertion failed: "+err.Error(), nil)
				return
			}
			sys = rmon.Wrap(ccs)
		} else {
			ccs, err := prover.BuildR1CSDeletion(uint32(dm.d), uint32(dm.b))
			if err != nil {
				run.Violate(dkey, "BuildR1CSDeletion failed: "+err.Error(), nil)
				return
			}
			sys = rmon.Wrap(ccs)
		}
		auditReport(run, dkey, sys)
		if len(sys.Audit.Public) != 2 || sys.Audit.Public[0] != "1" || sys.Audit.Public[1] != "InputHash" {
			run.Violate(dkey+"/public", fmt.Sprintf("public wires are %v, expected exactly [1 InputHash]", sys.Audit.Public), nil)
		}
		run.Add("public_input_shape_checked", 1)
		packed := 4*dm.b + 64
		if dm.ins {
			packed = 4 + 64 + 32*dm.b
		}
		blocks := packed/136 + 1
		run.Hist("keccak_blocks", fmt.Sprint(blocks))
		nValid := nValid
		if blocks >= 3 && !o.Thorough() {
			nValid = 3 // ~600k constraints per solve
		}
		flavours := []string{"", "lz-root", "zero-commitment", "lz-commitment", "", "members", "last-index"}
		var jobs []int
		for k := 0; k < nValid; k++ {
			jobs = append(jobs, k)
		}
		cli.ForEach(len(jobs), 3, func(k int) {
			key := fmt.Sprintf("%s/%d", dkey, k)
			if !run.Wants(key) {
				return
			}
			r := gen.RNG(o.Seed, key)
			want := flavours[k%len(flavours)]
			if !dm.ins && (want == "zero-commitment" || want == "lz-commitment" || want == "last-index") {
				want = "lz-root"
			}
			if want == "lz-root" && dm.d > 8 {
				want = "" // searching for a short root costs ~50 trees of this depth; keep it to small depths
			}
			b := validBatch(r, dm.ins, dm.d, dm.b, want)
			if b == nil {
				return
			}
			c03Batch(run, sys, r, key, mode, b)
			if k == 0 && blocks <= 2 && (o.Thorough() || (dm.d == 3 && dm.b == 2 && dm.ins) || (dm.d == 1 && dm.b == 1 && !dm.ins)) {
				c03Generic(run, sys, key+"/generic", mode, b, o.Pick(6, 24))
			}
			for _, v := range b.vals {
				if lz := leadingZeroBytes(v); lz > 0 {
					run.Add("packed_values_with_leading_zero_bytes", 1)
				}
				if v.Sign() == 0 {
					run.Add("packed_values_zero", 1)
				}
			}
		})
	})
	// insertion deeper than 32 levels compiles (there is no depth cap); a start index that does not fit 32 bits has no
	// on-chain packing at all, so no public input may make the circuit accept it
	if key := "C03/ins/d=33/b=1/index-range"; run.Wants(key) {
		if ccs, err := prover.BuildR1CSInsertion(33, 1); err == nil {
			sys := rmon.Wrap(ccs)
			r := gen.RNG(o.Seed, key)
			for i, start := range []*big.Int{new(big.Int).Add(two32, big.NewInt(5)), new(big.Int).Set(two32), new(big.Int).Sub(new(big.Int).Lsh(big.NewInt(1), 33), big.NewInt(1))} {
				t := ref.NewTree(33, ref.H2)
				t.Set(5, gen.NonZeroElem(r, ref.R))
				t.Set(start.Uint64()-1, gen.NonZeroElem(r, ref.R))
				id := gen.NonZeroElem(r, ref.R)
				pre, path := t.Root(), t.Path(start.Uint64())
				t.Set(start.Uint64(), id)
				post := t.Root()
				for hk, h := range []*big.Int{ref.HashToField(ref.PackInsertion(low32(start), pre, post, []*big.Int{id})), gen.Below(r, ref.R)} {
					as := &prover.InsertionMbuCircuit{InputHash: h, StartIndex: start, PreRoot: pre, PostRoot: post, IdComms: assign([]*big.Int{id}), MerkleProofs: assignss([][]*big.Int{path})}
					res := sys.Solve(as, nil)
					if res.Accepted {
						run.Violate(fmt.Sprintf("%s/%d/%d", key, i, hk), fmt.Sprintf("insertion circuit of depth 33 accepts start index 0x%s, which has no uint32 packing (public input = hash of its low 32 bits: %v)", start.Text(16), hk == 0), nil)
					}
					run.Case("ins/index-beyond-uint32", true, fmt.Sprintf("%s/%d/%d", key, i, hk), res.Accepted, map[string]any{"depth": 33, "start": "0x" + start.Text(16)})
				}
			}
			// sanity: a start index that fits is accepted at this depth
			t := ref.NewTree(33, ref.H2)
			id := gen.NonZeroElem(r, ref.R)
			start := big.NewInt(7)
			pre, path := t.Root(), t.Path(7)
			t.Set(7, id)
			post := t.Root()
			as := &prover.InsertionMbuCircuit{InputHash: ref.HashToField(ref.PackInsertion(7, pre, post, []*big.Int{id})), StartIndex: start, PreRoot: pre, PostRoot: post, IdComms: assign([]*big.Int{id}), MerkleProofs: assignss([][]*big.Int{path})}
			if res := sys.Solve(as, nil); !res.Accepted {
				run.Violate(key+"/sanity", "insertion circuit of depth 33 rejects a valid insertion at index 7: "+trim(res.Err), nil)
			}
		}
	}
	run.Require("valid batches accepted with the canonical hash", run.ClassTally("ins/canonical").Accepted+run.ClassTally("del/canonical").Accepted, 8)
	run.Require("forged v+k*r decompositions fired", run.GetInt("forged_vkr_fired"), 20)
	run.Require("forged decompositions of the value 0", run.GetInt("forged_zero_fired"), 1)
	run.Require("two-block hash inputs", run.GetInt("two_block_cases"), 1)
	run.Require("full circuits whose every hint call was discovered and forged", run.GetInt("generic_systems"), 2)
}

func c03Batch(run *evid.Run, sys *rmon.Sys, r *rand.Rand, key, mode string, b *batchC03) {
	good := b.hash()
	sample := b.describe()
	solve := func(sub, class string, hash *big.Int, hints rmon.Hints, wantAccept bool, extra map[string]any) bool {
		res := sys.Solve(b.assignment(hash), hints)
		s := map[string]any{"batch": sample, "public_input": "0x" + hash.Text(16)}
		for k, v := range extra {
			s[k] = v
		}
		if res.EvalErr != "" {
			run.Violate(key+"/"+sub+"/eval", "independent evaluator disagrees with the solver: "+res.EvalErr, s)
		}
		run.Add("constraints_rechecked", res.Checked)
		if res.Accepted != wantAccept {
			what := "circuit REJECTS a valid batch presented with the keccak of its canonical on-chain packing: " + trim(res.Err)
			if res.Accepted {
				what = "circuit ACCEPTS a public input that is not the keccak of the canonical packing of its witness (" + class + ")"
			}
			run.Violate(key+"/"+sub, what, s)
		}
		if !res.Accepted {
			run.Hist("rejection_sites", class+" @ "+res.Site)
		}
		run.Case(mode+"/"+class, true, key+"/"+sub+hash.Text(16), res.Accepted, s)
		return res.Accepted
	}
	solve("canonical", "canonical", good, nil, true, nil)
	if len(b.pack(b.idx, b.vals)) > 128 {
		run.Add("two_block_cases", 1)
	}
	// the same residue: hash + r is the same field element (accept)
	// every single-field perturbation of the hashed packing
	for i := range b.idx {
		idx := append([]uint32{}, b.idx...)
		idx[i] ^= 1 << uint(r.Intn(32))
		solve(fmt.Sprintf("hash-idx%d", i), "hash-of-perturbed-index", ref.HashToField(b.pack(idx, b.vals)), nil, false, map[string]any{"perturbed": fmt.Sprintf("index[%d]", i)})
	}
	for i, n := range b.names() {
		vals := append([]*big.Int{}, b.vals...)
		vals[i] = new(big.Int).Xor(vals[i], new(big.Int).Lsh(big.NewInt(1), uint(r.Intn(253))))
		solve("hash-"+n, "hash-of-perturbed-value", ref.HashToField(b.pack(b.idx, vals)), nil, false, map[string]any{"perturbed": n})
	}
	// neighbouring and random public inputs
	solve("hash+1", "hash+1", new(big.Int).Mod(new(big.Int).Add(good, big.NewInt(1)), ref.R), nil, false, nil)
	solve("hash-rand", "random-public-input", gen.Below(r, ref.R), nil, false, nil)
	// alternative encodings
	for name, enc := range b.alternativeEncodings() {
		h := ref.HashToField(enc)
		if h.Cmp(good) == 0 {
			continue
		}
		solve("enc-"+name, "encoding/"+name, h, nil, false, map[string]any{"encoding": name})
	}
	// hash of another valid batch of the same dimension
	if other := validBatch(r, b.ins, b.depth, len(b.proofs), ""); other != nil && other.hash().Cmp(good) != 0 {
		solve("other-batch", "hash-of-other-valid-batch", other.hash(), nil, false, nil)
	}
	// dishonest decompositions of each 256-bit value: v + k*r, and another value
	count := map[string]int{}
	for _, v := range b.vals {
		count[v.String()]++
	}
	top := new(big.Int).Lsh(big.NewInt(1), 256)
	for i, n := range b.names() {
		v := b.vals[i]
		if count[v.String()] > 1 {
			continue // the forged hint would hit several fields at once
		}
		for k := int64(1); k <= 6; k++ {
			alt := new(big.Int).Add(v, new(big.Int).Mul(big.NewInt(k), ref.R))
			if alt.Cmp(top) >= 0 {
				break
			}
			vals := append([]*big.Int{}, b.vals...)
			vals[i] = alt
			fired := 0
			// any decomposition of this value wide enough to hold the alias is forged (the circuit may use another width than 256)
			h := rmon.Hints{rmon.NBitsID: rmon.NBitsWhen(v, 0, func(_ *big.Int, nn int) []*big.Int {
				if nn < alt.BitLen() || nn < 200 {
					return nil
				}
				return rmon.BitsOf(alt, nn)
			}, &fired)}
			solve(fmt.Sprintf("N+%d-%s", k, n), fmt.Sprintf("forged/v+%d*r", k), ref.HashToField(b.pack(b.idx, vals)), h, false, map[string]any{"field": n, "k": k, "value": "0x" + v.Text(16)})
			run.Add("forged_vkr_fired", fired)
			if v.Sign() == 0 {
				run.Add("forged_zero_fired", fired)
			}
		}
		// the same alias, but answered for only ONE of the decomposition calls of this value (a circuit that
		// decomposes a value twice must not check one copy and hash the other)
		if alt := new(big.Int).Add(v, ref.R); alt.Cmp(top) < 0 {
			vals := append([]*big.Int{}, b.vals...)
			vals[i] = alt
			for nth := 0; nth < 3; nth++ {
				fired := 0
				h := rmon.Hints{rmon.NBitsID: rmon.NBitsNth(v, 0, nth, func(_ *big.Int, nn int) []*big.Int {
					if nn < alt.BitLen() || nn < 200 {
						return nil
					}
					return rmon.BitsOf(alt, nn)
				}, &fired)}
				res := sys.Solve(b.assignment(ref.HashToField(b.pack(b.idx, vals))), h)
				if fired == 0 {
					break // there is no such call
				}
				run.Add("forged_single_call_fired", 1)
				if res.Accepted {
					run.Violate(fmt.Sprintf("%s/Ncall%d-%s", key, nth, n), fmt.Sprintf("circuit ACCEPTS the hash of the alias v+r of %s when only decomposition call #%d of that value is forged (checked and hashed bits are different wires)", n, nth), map[string]any{"batch": sample, "field": n, "call": nth})
				}
				run.Case(mode+"/forged/single-call-v+r", true, fmt.Sprintf("%s/%s/%d", key, n, nth), res.Accepted, map[string]any{"field": n, "call": nth})
			}
		}
		// bits of a different value (recomposition must catch it)
		wrong := new(big.Int).Xor(v, big.NewInt(1))
		vals := append([]*big.Int{}, b.vals...)
		vals[i] = wrong
		fired := 0
		h := rmon.Hints{rmon.NBitsID: rmon.NBitsWhen(v, 256, func(_ *big.Int, nn int) []*big.Int { return rmon.BitsOf(wrong, nn) }, &fired)}
		solve("Nwrong-"+n, "forged/other-value", ref.HashToField(b.pack(b.idx, vals)), h, false, map[string]any{"field": n})
		// a non-boolean digit that still recomposes to v
		j := r.Intn(255)
		fired = 0
		h = rmon.Hints{rmon.NBitsID: rmon.NBitsWhen(v, 256, func(_ *big.Int, nn int) []*big.Int {
			return nonBooleanSplit(v, nn, j, ref.R)
		}, &fired)}
		solve("Nnb-"+n, "forged/non-boolean-digit", good, h, false, map[string]any{"field": n, "digit": j})
	}
	// 32-bit fields: another value's bits with that value's hash; non-boolean digits
	for i := range b.idx {
		iv := new(big.Int).SetUint64(uint64(b.idx[i]))
		cnt := 0
		for _, x := range b.idx {
			if x == b.idx[i] {
				cnt++
			}
		}
		if cnt > 1 {
			continue
		}
		wrong := b.idx[i] ^ (1 << uint(r.Intn(32)))
		idx := append([]uint32{}, b.idx...)
		idx[i] = wrong
		fired := 0
		h := rmon.Hints{rmon.NBitsID: rmon.NBitsWhen(iv, 32, func(_ *big.Int, nn int) []*big.Int { return rmon.BitsOf(new(big.Int).SetUint64(uint64(wrong)), nn) }, &fired)}
		solve(fmt.Sprintf("Nwrong-idx%d", i), "forged/other-index", ref.HashToField(b.pack(idx, b.vals)), h, false, map[string]any{"index": i})
		for _, j := range []int{0, 30} {
			fired = 0
			h = rmon.Hints{rmon.NBitsID: rmon.NBitsWhen(iv, 32, func(_ *big.Int, nn int) []*big.Int {
				return nonBooleanSplit(iv, nn, j, ref.R)
			}, &fired)}
			solve(fmt.Sprintf("Nnb-idx%d-%d", i, j), "forged/non-boolean-index-digit", good, h, false, map[string]any{"index": i, "digit": j})
		}
	}
}

// c03Generic: dishonest prover without a strategy table. Every hint call the full circuit makes on this witness is
// discovered in an honest solve (whatever hint it is), and each of the most frequent distinct calls is answered with
// each generic perturbation. A forged solve is first tried with the canonical public input; when it is rejected at a
// constraint that contains the public wire, the value that constraint asks for is computed from the solver's wire
// vector and tried as the public input. Accepting a public input that is not the Keccak of the canonical packing of
// the witness's own fields is the violation.
func c03Generic(run *evid.Run, sys *rmon.Sys, key, mode string, b *batchC03, maxCalls int) {
	h := b.hash()
	calls, res := discoverCalls(sys, b.assignment(h), nil)
	if !res.Accepted {
		return // reported by the canonical case
	}
	run.Add("generic_systems", 1)
	run.Add("generic_hint_calls_discovered", len(calls))
	if len(calls) > maxCalls {
		calls = calls[:maxCalls]
	}
	type job struct {
		c forgeCall
		p perturbation
	}
	var jobs []job
	for _, c := range calls {
		for _, p := range perturbations {
			if c.nOut >= p.min {
				jobs = append(jobs, job{c, p})
			}
		}
	}
	cli.ForEach(len(jobs), 4, func(i int) {
		j := jobs[i]
		in := j.c.in
		if len(in) > 24 {
			in = in[:24] + "…"
		}
		jkey := fmt.Sprintf("%s/hint=%d/out=%d/in=%s/%s", key, j.c.id, j.c.nOut, in, j.p.name)
		var fired int64
		r1, x := sys.SolveFixPublic(b.assignment(h), forgeOption(j.c, j.p, &fired, nil))
		sample := map[string]any{"mode": mode, "hint": fmt.Sprint(j.c.id), "outputs": j.c.nOut, "hint_input": in, "perturbation": j.p.name, "calls_forged": fired, "rejected_at": r1.Site, "public_input_extracted": x != nil}
		accepted := r1.Accepted
		if !r1.Accepted && x != nil && x.Cmp(h) != 0 {
			run.Add("generic_public_inputs_extracted", 1)
			var f2 int64
			if r2 := sys.SolveWith(b.assignment(x), forgeOption(j.c, j.p, &f2, nil)); r2.Accepted && f2 > 0 {
				accepted = true
				run.Violate(jkey, fmt.Sprintf("circuit ACCEPTS the public input 0x%s, which is not the keccak of the canonical packing of its witness (0x%s), when the prover answers hint %d (%d outputs) on input (%s) with %s (%d calls forged)", x.Text(16), h.Text(16), j.c.id, j.c.nOut, in, j.p.name, f2), b.describe())
			}
		}
		run.Add("generic_forged_solves", 1)
		run.Case(mode+"/generic/"+j.p.name, true, jkey, accepted, sample)
	})
}
