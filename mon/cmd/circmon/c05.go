package main

import (
	"worldcoin/gnark-mbu/poseidon_tree"

	"fmt"
	"math/big"
	"math/rand"
	"sync"

	"github.com/consensys/gnark/backend"
	"github.com/consensys/gnark/frontend"
	"github.com/consensys/gnark/test"

	"verifmon/internal/cli"
	"verifmon/internal/evid"
	"verifmon/internal/gen"
	"verifmon/internal/ref"
	"verifmon/internal/rmon"
)

func bigFromDec(s string) *big.Int { v, _ := new(big.Int).SetString(s, 10); return v }

func c05Specials() []*big.Int {
	r := ref.R
	out := []*big.Int{big.NewInt(0), big.NewInt(1), big.NewInt(2), new(big.Int).Sub(r, big.NewInt(1)), new(big.Int).Sub(r, big.NewInt(2)),
		new(big.Int).Rsh(new(big.Int).Sub(r, big.NewInt(1)), 1), new(big.Int).Rsh(new(big.Int).Add(r, big.NewInt(1)), 1)}
	for k := 1; k < 254; k++ {
		p := new(big.Int).Lsh(big.NewInt(1), uint(k))
		out = append(out, p, new(big.Int).Sub(p, big.NewInt(1)))
	}
	return out
}

func runC05(o *cli.Opts, run *evid.Run) {
	run.Rule("one case = one solve of a harness circuit around poseidon.Poseidon1/Poseidon2 (compiled R1CS over BN254, a subset also in the gnark test engine) with Out = reference (must accept) or reference+1 / another input's digest (must reject); " +
		"inputs: specials (0,1,2,r-1,r-2,(r-1)/2, 2^k, 2^k-1 for all k<254), all pairs of 0..255, sparse/dense patterns, PRNG-uniform; plus a circuit calling the gadgets repeatedly on shared operands; non-trivial = distinct (arity, inputs, expected)")
	run.Assume("iden3 go-iden3-crypto Poseidon (circomlib parameters) is the reference; anchored to two published circomlib vectors")
	// anchor: published circomlib vectors, independent of any Go library
	v12 := bigFromDec("7853200120776062878684798364095072458815029376092732009249414926327459813530")
	v1 := bigFromDec("18586133768512220936620570745912940619677854269274689475585506675881198879027")
	if ref.H2(big.NewInt(1), big.NewInt(2)).Cmp(v12) != 0 || ref.H1(big.NewInt(1)).Cmp(v1) != 0 {
		fmt.Println("reference Poseidon does not reproduce the published vectors; monitor unusable")
		run.Require("reference anchored to published vectors", 0, 1)
		return
	}
	run.Set("published_vectors_checked", 2)
	s1, err1 := rmon.Compile(rmon.BN254, &P1Circuit{})
	s2, err2 := rmon.Compile(rmon.BN254, &P2Circuit{})
	sm, err3 := rmon.Compile(rmon.BN254, &PMultiCircuit{})
	if err1 != nil || err2 != nil || err3 != nil {
		run.Violate("C05/compile", fmt.Sprint("harness does not compile: ", err1, err2, err3), nil)
		return
	}
	run.Set("constraints", map[string]int{"poseidon1": s1.Audit.Constraints, "poseidon2": s2.Audit.Constraints, "multi": sm.Audit.Constraints})
	// dishonest prover: discover every hint call the compiled gadgets make (none for a permutation built from
	// additions and multiplications alone) and forge its outputs; outputs are read through a probe
	if psys, err := rmon.Compile(rmon.BN254, &P2ProbeCircuit{}); err != nil {
		run.Violate("C05/forge/compile", "probe harness does not compile: "+err.Error(), nil)
	} else {
		rm1 := new(big.Int).Sub(ref.R, big.NewInt(1))
		ins := [][2]*big.Int{{big.NewInt(0), big.NewInt(0)}, {big.NewInt(1), big.NewInt(2)}, {rm1, new(big.Int).Sub(ref.R, big.NewInt(2))}, {new(big.Int).Rsh(ref.R, 1), big.NewInt(0)},
			{new(big.Int).Lsh(big.NewInt(1), 200), new(big.Int).Lsh(big.NewInt(3), 128)}}
		cli.ForEach(len(ins), 4, func(i int) {
			a, b := ins[i][0], ins[i][1]
			key := fmt.Sprintf("C05/forge/%d", i)
			if !run.Wants(key) {
				return
			}
			want := []*big.Int{ref.H2(a, b), ref.H1(b)}
			confirm := func(outs []*big.Int, opt backend.ProverOption) bool {
				if outs[0].Cmp(want[0]) != 0 && s2.SolveWith(&P2Circuit{A: a, B: b, Out: outs[0]}, opt).Accepted {
					return true
				}
				return outs[1].Cmp(want[1]) != 0 && s1.SolveWith(&P1Circuit{In: b, Out: outs[1]}, opt).Accepted
			}
			forgeStage(run, key, fmt.Sprintf("Poseidon2(0x%s, 0x%s) and Poseidon1 of the second operand", a.Text(16), b.Text(16)), psys,
				func(tag int64) frontend.Circuit { return &P2ProbeCircuit{A: a, B: b, Tag: tag} }, want, confirm, o.Pick(8, 40))
		})
	}
	one := big.NewInt(1)
	check2 := func(key, class string, a, b *big.Int, engine bool) {
		if !run.Wants(key) {
			return
		}
		want := ref.H2(a, b)
		res := s2.Solve(&P2Circuit{A: a, B: b, Out: want}, nil)
		sample := map[string]any{"a": "0x" + a.Text(16), "b": "0x" + b.Text(16), "reference": "0x" + want.Text(16)}
		if !res.Accepted || res.EvalErr != "" {
			run.Violate(key, fmt.Sprintf("Poseidon2 gadget rejects the reference digest (%v %s)", res.Err, res.EvalErr), sample)
		}
		run.Case(class+"/p2/pos", true, key, res.Accepted, sample)
		bad := new(big.Int).Add(want, one)
		bad.Mod(bad, ref.R)
		res = s2.Solve(&P2Circuit{A: a, B: b, Out: bad}, nil)
		if res.Accepted {
			run.Violate(key+"/neg", "Poseidon2 gadget accepts reference+1", sample)
		}
		run.Case(class+"/p2/neg", true, key, res.Accepted, nil)
		if engine {
			if err := test.IsSolved(&P2Circuit{}, &P2Circuit{A: a, B: b, Out: want}, rmon.BN254); err != nil {
				run.Violate(key+"/engine", "test engine: Poseidon2 gadget rejects the reference digest: "+err.Error(), sample)
			}
			run.Add("engine_runs", 1)
		}
	}
	check1 := func(key, class string, a *big.Int, engine bool) {
		if !run.Wants(key) {
			return
		}
		want := ref.H1(a)
		res := s1.Solve(&P1Circuit{In: a, Out: want}, nil)
		sample := map[string]any{"a": "0x" + a.Text(16), "reference": "0x" + want.Text(16)}
		if !res.Accepted || res.EvalErr != "" {
			run.Violate(key, fmt.Sprintf("Poseidon1 gadget rejects the reference digest (%v %s)", res.Err, res.EvalErr), sample)
		}
		run.Case(class+"/p1/pos", true, key, res.Accepted, sample)
		bad := new(big.Int).Add(want, one)
		bad.Mod(bad, ref.R)
		res = s1.Solve(&P1Circuit{In: a, Out: bad}, nil)
		if res.Accepted {
			run.Violate(key+"/neg", "Poseidon1 gadget accepts reference+1", sample)
		}
		run.Case(class+"/p1/neg", true, key, res.Accepted, nil)
		if engine {
			if err := test.IsSolved(&P1Circuit{}, &P1Circuit{In: a, Out: want}, rmon.BN254); err != nil {
				run.Violate(key+"/engine", "test engine: Poseidon1 gadget rejects the reference digest: "+err.Error(), sample)
			}
			run.Add("engine_runs", 1)
		}
	}
	checkMulti := func(key string, a, b *big.Int) {
		if !run.Wants(key) {
			return
		}
		h1 := ref.H2(a, b)
		as := &PMultiCircuit{A: a, B: b, H1: h1, H2: h1, H3: ref.H2(h1, a), H4: ref.H1(a), H5: ref.H2(b, a)}
		res := sm.Solve(as, nil)
		sample := map[string]any{"a": "0x" + a.Text(16), "b": "0x" + b.Text(16)}
		if !res.Accepted || res.EvalErr != "" {
			run.Violate(key, fmt.Sprintf("repeated gadget calls on shared operands disagree with the reference (%v %s)", res.Err, res.EvalErr), sample)
		}
		run.Case("multi/pos", true, key, res.Accepted, sample)
		// one output off
		k := int((a.Uint64() + b.Uint64()) % 5)
		neg := *as
		bump := func(v frontend_Variable) *big.Int {
			x := new(big.Int).Add(v.(*big.Int), one)
			return x.Mod(x, ref.R)
		}
		switch k {
		case 0:
			neg.H1 = bump(neg.H1)
		case 1:
			neg.H2 = bump(neg.H2)
		case 2:
			neg.H3 = bump(neg.H3)
		case 3:
			neg.H4 = bump(neg.H4)
		case 4:
			neg.H5 = bump(neg.H5)
		}
		if sm.Solve(&neg, nil).Accepted {
			run.Violate(key+"/neg", "repeated-call harness accepts a wrong digest", sample)
		}
		run.Case("multi/neg", true, key, false, nil)
	}

	sd, errd := rmon.Compile(rmon.BN254, &PDerivedCircuit{})
	if errd != nil {
		run.Violate("C05/compile-derived", "derived-operand harness does not compile: "+errd.Error(), nil)
		return
	}
	mulmod := func(a, b *big.Int) *big.Int { return new(big.Int).Mod(new(big.Int).Mul(a, b), ref.R) }
	addmod := func(vs ...*big.Int) *big.Int {
		s := new(big.Int)
		for _, v := range vs {
			s.Add(s, v)
		}
		return s.Mod(s, ref.R)
	}
	checkDerived := func(key string, a, b *big.Int, engine bool) {
		if !run.Wants(key) {
			return
		}
		v := addmod(a, one)
		w := mulmod(a, b)
		u := addmod(mulmod(b, big.NewInt(3)), a, big.NewInt(7))
		as := &PDerivedCircuit{A: a, B: b, H1: ref.H2(v, v), H2: ref.H1(v), H3: ref.H2(v, w), H4: ref.H2(u, v)}
		sample := map[string]any{"a": "0x" + a.Text(16), "b": "0x" + b.Text(16)}
		res := sd.Solve(as, nil)
		if !res.Accepted || res.EvalErr != "" {
			run.Violate(key, fmt.Sprintf("gadgets called on derived, reused operands (a+1, a*b, 3b+a+7) disagree with the reference (%v %s)", res.Err, res.EvalErr), sample)
		}
		run.Case("derived/pos", true, key, res.Accepted, sample)
		if engine {
			if err := test.IsSolved(&PDerivedCircuit{}, as, rmon.BN254); err != nil {
				run.Violate(key+"/engine", "test engine: gadgets on derived, reused operands disagree with the reference: "+err.Error(), sample)
			}
			h1 := ref.H2(a, b)
			m := &PMultiCircuit{A: a, B: b, H1: h1, H2: h1, H3: ref.H2(h1, a), H4: ref.H1(a), H5: ref.H2(b, a)}
			if err := test.IsSolved(&PMultiCircuit{}, m, rmon.BN254); err != nil {
				run.Violate(key+"/engine-multi", "test engine: repeated gadget calls on shared operands disagree with the reference: "+err.Error(), sample)
			}
			run.Add("engine_runs", 2)
		}
	}
	sp := c05Specials()
	// specials: singletons, and pairs among the first few + sampled pairs among the rest
	cli.ForEach(len(sp), 0, func(i int) {
		check1(fmt.Sprintf("C05/special1/%d", i), "special", sp[i], i%16 == 0)
		for j := 0; j < 7; j++ {
			check2(fmt.Sprintf("C05/special2/%d/%d", i, j), "special", sp[i], sp[j], i%16 == 0 && j == 0)
			check2(fmt.Sprintf("C05/special2r/%d/%d", i, j), "special", sp[j], sp[i], false)
		}
		r := gen.RNG(o.Seed, fmt.Sprint("C05/sp", i))
		for k := 0; k < 4; k++ {
			j := r.Intn(len(sp))
			check2(fmt.Sprintf("C05/special2x/%d/%d", i, j), "special", sp[i], sp[j], false)
		}
		checkMulti(fmt.Sprintf("C05/multi/special/%d", i), sp[i], sp[(i*7+3)%len(sp)])
	})
	// "roots computed inside the circuit coincide with roots computed by the off-chain tree": the gadget is compared
	// with the reference above, here the repository's off-chain tree is compared with the same reference on the same
	// special / sparse / dense value classes (first write to a slot, overwrite, and write next to an occupied slot)
	cli.ForEach(len(sp)+o.Pick(200, 4000), 0, func(i int) {
		key := fmt.Sprintf("C05/offchain/%d", i)
		if !run.Wants(key) {
			return
		}
		r := gen.RNG(o.Seed, key)
		v := c05Elem(r)
		if i < len(sp) {
			v = sp[i]
		}
		d := 1 + i%6
		tree := poseidon_tree.NewTree(d)
		rt := ref.NewTree(d, ref.H2)
		idx := r.Intn(1 << d)
		type op struct {
			i int
			v *big.Int
		}
		var ops []op
		switch i % 3 {
		case 1:
			ops = append(ops, op{idx ^ 1, c05Elem(r)})
		case 2:
			ops = append(ops, op{idx, c05Elem(r)}, op{r.Intn(1 << d), sp[r.Intn(len(sp))]})
		}
		ops = append(ops, op{idx, v})
		if i%4 == 3 && v.Sign() != 0 {
			// the SAME big.Int object goes into a second leaf (a shared dummy commitment), then the first leaf is
			// overwritten: the second leaf, and the caller's value, must keep the old value
			j := (idx + 1 + r.Intn(1<<d-1)) % (1 << d)
			if d == 0 || j == idx {
				j = idx ^ 1
			}
			ops = append(ops, op{j, v}, op{idx, gen.NonZeroElem(r, ref.R)}, op{r.Intn(1 << d), c05Elem(r)})
		}
		vBefore := new(big.Int).Set(v)
		okAll := true
		for k, o2 := range ops {
			prev := rt.Get(uint64(o2.i))
			proof := tree.Update(o2.i, *o2.v)
			rt.Set(uint64(o2.i), o2.v)
			got := tree.Root()
			sib := make([]*big.Int, len(proof))
			for j := range proof {
				sib[j] = new(big.Int).Set(&proof[j])
			}
			ok := got.Cmp(rt.Root()) == 0 && len(sib) == d && ref.Fold(ref.H2, o2.v, uint64(o2.i), sib).Cmp(rt.Root()) == 0
			if !ok {
				okAll = false
				run.Violate(fmt.Sprintf("%s/step%d", key, k), fmt.Sprintf("off-chain tree (depth %d) after writing 0x%s at %d over 0x%s: root 0x%s, reference Poseidon tree (= what the circuit recomputes) 0x%s, returned path has %d siblings", d, o2.v.Text(16), o2.i, prev.Text(16), got.Text(16), rt.Root().Text(16), len(sib)), nil)
			}
		}
		if v.Cmp(vBefore) != 0 {
			okAll = false
			run.Violate(key+"/caller-value", fmt.Sprintf("the off-chain tree modified the caller's value 0x%s (now 0x%s) while updating another leaf", vBefore.Text(16), v.Text(16)), nil)
		}
		run.Case("offchain-tree", true, key+v.Text(16), okAll, map[string]any{"depth": d, "value": "0x" + v.Text(16), "index": idx, "writes": len(ops)})
	})
	// all pairs of small integers
	smallN := o.Pick(64, 256)
	cli.ForEach(smallN, 0, func(a int) {
		check1(fmt.Sprintf("C05/small1/%d", a), "small", big.NewInt(int64(a)), false)
		for b := 0; b < smallN; b++ {
			check2(fmt.Sprintf("C05/small2/%d/%d", a, b), "small", big.NewInt(int64(a)), big.NewInt(int64(b)), false)
		}
	})
	run.Set("small_pairs_exhaustive_up_to", smallN)
	// patterns + uniform
	n := o.Pick(20000, 1000000)
	cli.ForEach(n, 0, func(i int) {
		key := fmt.Sprintf("C05/rand/%d", i)
		r := gen.RNG(o.Seed, key)
		a, b := c05Elem(r), c05Elem(r)
		check2(key, "random", a, b, i%2000 == 0)
		if i%4 == 0 {
			check1(key+"/1", "random", a, i%2000 == 0)
		}
		if i%8 == 0 {
			checkMulti(key+"/multi", a, b)
			checkDerived(key+"/derived", a, b, i%400 == 0)
		}
	})
	// compile-time constants as gadget inputs (compiled R1CS and engine)
	{
		consts := []*big.Int{big.NewInt(0), big.NewInt(1), big.NewInt(5), new(big.Int).Sub(ref.R, one), new(big.Int).Lsh(one, 200)}
		r := gen.RNG(o.Seed, "C05/const")
		for len(consts) < o.Pick(10, 40) {
			consts = append(consts, c05Elem(r))
		}
		cli.ForEach(len(consts), 0, func(i int) {
			key := fmt.Sprintf("C05/const/%d", i)
			if !run.Wants(key) {
				return
			}
			k1, k2, k3 := consts[i], consts[(i+1)%len(consts)], consts[(i+2)%len(consts)]
			shape := &PConstCircuit{K1: k1, K2: k2, K3: k3}
			sys, err := rmon.Compile(rmon.BN254, shape)
			if err != nil {
				run.Violate(key, "constant-input harness does not compile: "+trim(err), nil)
				return
			}
			rr := gen.RNG(o.Seed, key)
			for it := 0; it < 4; it++ {
				a := c05Elem(rr)
				as := &PConstCircuit{A: a, H1: ref.H2(a, k1), H2: ref.H2(k2, a), H3: ref.H1(k3), H4: ref.H2(k1, k2), K1: k1, K2: k2, K3: k3}
				sample := map[string]any{"a": "0x" + a.Text(16), "k1": "0x" + k1.Text(16), "k2": "0x" + k2.Text(16), "k3": "0x" + k3.Text(16)}
				res := sys.Solve(as, nil)
				if !res.Accepted {
					run.Violate(fmt.Sprintf("%s/%d", key, it), "gadgets fed with compile-time constants disagree with the reference in the compiled R1CS: "+trim(res.Err), sample)
				}
				run.Case("constants/r1cs", true, fmt.Sprintf("%s/%d", key, it), res.Accepted, sample)
				if it == 0 {
					if err := test.IsSolved(shape, as, rmon.BN254); err != nil {
						run.Violate(fmt.Sprintf("%s/%d/engine", key, it), "gadgets fed with compile-time constants disagree with the reference in the test engine: "+trim(err), sample)
					}
					run.Add("engine_runs", 1)
				}
			}
		})
	}
	// several circuits using the gadgets are DEFINED at the same time (gnark's own test helpers do this with
	// t.Parallel; setup of both modes may run concurrently): every one of them must still be the reference function
	{
		var wg sync.WaitGroup
		for g := 0; g < 8; g++ {
			g := g
			wg.Add(1)
			go func() {
				defer wg.Done()
				defer func() {
					if p := recover(); p != nil {
						run.Violate(fmt.Sprintf("C05/concurrent-define/%d/panic", g), fmt.Sprintf("defining Poseidon circuits concurrently panics: %v", p), nil)
					}
				}()
				r := gen.RNG(o.Seed, fmt.Sprint("C05/concurrent-define/", g))
				for it := 0; it < o.Pick(30, 300); it++ {
					key := fmt.Sprintf("C05/concurrent-define/%d/%d", g, it)
					if !run.Wants(key) {
						continue
					}
					a, b := c05Elem(r), c05Elem(r)
					ok := true
					switch (g + it) % 3 {
					case 0:
						if err := test.IsSolved(&P2Circuit{}, &P2Circuit{A: a, B: b, Out: ref.H2(a, b)}, rmon.BN254); err != nil {
							ok = false
							run.Violate(key, "Poseidon2 defined while other Poseidon circuits are being defined differs from the reference: "+trim(err), nil)
						}
					case 1:
						if err := test.IsSolved(&P1Circuit{}, &P1Circuit{In: a, Out: ref.H1(a)}, rmon.BN254); err != nil {
							ok = false
							run.Violate(key, "Poseidon1 defined while other Poseidon circuits are being defined differs from the reference: "+trim(err), nil)
						}
					default:
						sys, err := rmon.Compile(rmon.BN254, &P2Circuit{})
						if err != nil {
							ok = false
							run.Violate(key, "compiling a Poseidon2 circuit while others are being defined fails: "+trim(err), nil)
						} else if res := sys.Solve(&P2Circuit{A: a, B: b, Out: ref.H2(a, b)}, nil); !res.Accepted {
							ok = false
							run.Violate(key, "a Poseidon2 circuit compiled while others are being defined rejects the reference digest", nil)
						}
					}
					run.Case("concurrent-define", true, key, ok, map[string]any{"goroutine": g, "iteration": it})
				}
			}()
		}
		wg.Wait()
	}
	run.Require("engine runs", run.GetInt("engine_runs"), 10)
	run.Require("probe systems examined for prover-chosen values", run.GetInt("forge_probe_systems"), 5)
	run.Require("positive Poseidon2 cases", run.ClassTally("random/p2/pos").Cases, 1000)
}

type frontend_Variable = interface{}

func c05Elem(r *rand.Rand) *big.Int {
	switch r.Intn(6) {
	case 0:
		return gen.Elem(r, "sparse", ref.R)
	case 1:
		return gen.Elem(r, "dense", ref.R)
	case 2:
		return gen.Elem(r, gen.MagClasses[r.Intn(len(gen.MagClasses))], ref.R)
	}
	return gen.Below(r, ref.R)
}
