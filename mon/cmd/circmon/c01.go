package main

import (
	"fmt"
	"math/big"
	"strings"

	"worldcoin/gnark-mbu/prover"

	"verifmon/internal/cases"
	"verifmon/internal/cli"
	"verifmon/internal/conv"
	"verifmon/internal/evid"
	"verifmon/internal/gen"
	"verifmon/internal/ref"
	"verifmon/internal/rmon"
	"verifmon/internal/sysutil"
)

type dim struct{ d, b int }

// insIndices are the index values the circuit decomposes: (start + i) mod r.
func insIndices(c *cases.Ins) []*big.Int {
	out := make([]*big.Int, len(c.Ids))
	for i := range out {
		v := new(big.Int).Add(c.Start, big.NewInt(int64(i)))
		out[i] = v.Mod(v, ref.R)
	}
	return out
}

func auditReport(run *evid.Run, key string, sys *rmon.Sys) bool {
	a := sys.Audit
	run.Add("systems_audited", 1)
	run.Add("audit_internal_wires", a.InternalWires)
	run.Add("audit_hint_wires", a.HintWires)
	run.Add("audit_o_defined_wires", a.ODefined)
	if a.Exceptions != 0 || a.UnknownHints != 0 {
		// the dishonest-prover model (freedom = inputs + NBits/InvZero outputs) does not cover this system
		run.Add("audit_exceptions", a.Exceptions+a.UnknownHints)
		fmt.Printf("AUDIT property=%s %s: %d wires not O-defined, %d unknown hint calls: adversarial coverage incomplete\n", run.Prop, key, a.Exceptions, a.UnknownHints)
		return false
	}
	return true
}

func runC01(o *cli.Opts, run *evid.Run) {
	run.Rule("one case = one solve of the real compiled R1CS (gadget harness InsertionProof+PostRoot equality, or the full circuit from BuildR1CSInsertion) on a PRNG-generated batch of a named class, under the honest hint table and under dishonest tables (non-boolean / wrong index decompositions); " +
		"verdict compared with the reference specification ValidInsertion; tiny-field (47 elements) sub-runs enumerate inputs and all prover-chosen hint outputs exhaustively; non-trivial = distinct (dimension, full assignment)")
	run.Assume("iden3 Poseidon is the reference hash (BN254); over F47 the hash is the gadget's own measured 47x47 table (the property is stated relative to the hash)",
		"prover freedom = secret inputs + outputs of NBits/InvZero hints (structure audit of every compiled system)")
	var dims []dim
	if o.Thorough() {
		for d := 1; d <= 32; d++ {
			for b := 1; b <= 6; b++ {
				dims = append(dims, dim{d, b})
			}
		}
		dims = append(dims, dim{4, 16}, dim{10, 16}, dim{20, 16}, dim{5, 32}, dim{32, 8})
	} else {
		for _, d := range []int{1, 2, 3, 5, 16, 31, 32} {
			for _, b := range []int{1, 2, 3} {
				dims = append(dims, dim{d, b})
			}
		}
		dims = append(dims, dim{8, 8}, dim{20, 4})
	}
	perClass := o.Pick(10, 24)
	auditOK := true
	cli.ForEach(len(dims), 6, func(di int) {
		dm := dims[di]
		dkey := fmt.Sprintf("C01/gadget/d=%d/b=%d", dm.d, dm.b)
		if !run.Wants(dkey) && !strings.HasPrefix(run.Only, dkey) {
			return
		}
		sys, err := rmon.Compile(rmon.BN254, &InsGadgetCircuit{Ids: vars(dm.b), Proofs: varss(dm.b, dm.d), Depth: dm.d, Batch: dm.b})
		if err != nil {
			run.Violate(dkey, "harness does not compile: "+err.Error(), nil)
			return
		}
		if !auditReport(run, dkey, sys) {
			auditOK = false
		}
		strat := append(indexStrategies(dm.d, ref.R), aliasStrategies(ref.R)...)
		type job struct {
			class string
			k     int
		}
		var jobs []job
		for _, cl := range cases.InsClasses {
			for k := 0; k < perClass; k++ {
				jobs = append(jobs, job{cl, k})
			}
		}
		cli.ForEach(len(jobs), 4, func(ji int) {
			j := jobs[ji]
			key := fmt.Sprintf("%s/%s/%d", dkey, j.class, j.k)
			if !run.Wants(key) {
				return
			}
			c, ok := cases.BN254.Insertion(gen.RNG(o.Seed, key), j.class, dm.d, dm.b)
			if !ok {
				return
			}
			judge(run, sys, key, "gadget/"+j.class, c.Valid, insGadgetAssign(c), strat, insIndices(c), c.Sig(), c.Describe())
		})
	})
	run.Stage("gadget")
	// full circuits
	full := []dim{{3, 2}, {1, 1}, {32, 1}} // (32,1): the deepest tree a uint32 start index addresses
	if o.Thorough() {
		full = []dim{{3, 2}, {1, 1}, {2, 3}, {32, 1}, {4, 5}, {10, 3}, {31, 2}}
	}
	perFull := o.Pick(3, 8)
	cli.ForEach(len(full), 2, func(di int) {
		dm := full[di]
		dkey := fmt.Sprintf("C01/full/d=%d/b=%d", dm.d, dm.b)
		if !run.Wants(dkey) && !strings.HasPrefix(run.Only, dkey) {
			return
		}
		ccs, err := prover.BuildR1CSInsertion(uint32(dm.d), uint32(dm.b))
		if err != nil {
			run.Violate(dkey, "BuildR1CSInsertion failed: "+err.Error(), nil)
			return
		}
		sys := rmon.Wrap(ccs)
		if !auditReport(run, dkey, sys) {
			auditOK = false
		}
		strat := append(append(indexStrategies(dm.d, ref.R), indexStrategies(32, ref.R)...), aliasStrategies(ref.R)...)
		type job struct {
			class string
			k     int
		}
		var jobs []job
		for _, cl := range cases.InsClasses {
			for k := 0; k < perFull; k++ {
				jobs = append(jobs, job{cl, k})
			}
		}
		cli.ForEach(len(jobs), 4, func(ji int) {
			j := jobs[ji]
			key := fmt.Sprintf("%s/%s/%d", dkey, j.class, j.k)
			if !run.Wants(key) {
				return
			}
			c, ok := cases.BN254.Insertion(gen.RNG(o.Seed, key), j.class, dm.d, dm.b)
			if !ok {
				return
			}
			valid := c.Valid && c.Start.Cmp(two32) < 0
			judge(run, sys, key, "full/"+j.class, valid, insFullAssign(c, insHash(c)), strat, insIndices(c), c.Sig(), c.Describe())
			// the prover's front door: ProveInsertion first runs ValidateShape on the parameters
			if valid && sysutil.InsFits(c) {
				if err := conv.ToRepoIns(sysutil.InsParams(c)).ValidateShape(uint32(dm.d), uint32(dm.b)); err != nil {
					run.Violate(key+"/validate-shape", fmt.Sprintf("a batch the specification accepts (class %s) is refused by the prover's parameter check before proving: %v", j.class, err), c.Describe())
				}
				run.Add("prover_front_door_checks", 1)
			}
		})
	})
	run.Stage("full")
	c01Tiny(o, run)
	run.Stage("tiny")
	if !auditOK {
		run.Require("structure audit clean on every compiled system", 0, 1)
	}
	acc, rej := 0, 0
	for _, cl := range cases.InsClasses {
		t := run.ClassTally("gadget/" + cl)
		acc += t.Accepted
		rej += t.Rejected
	}
	run.Require("accepted valid gadget cases", acc, 20)
	run.Require("rejected invalid gadget cases", rej, 50)
	run.Require("dishonest solves", run.GetInt("dishonest_solves"), 30)
	run.Require("tiny-field hint-odometer points", run.GetInt("f47_odometer_points"), 1000)
}

// c01Tiny: the 47-element field. Class cases, exhaustive input enumeration at
// depth 1 batch 1, and an odometer over all hint outputs.
func c01Tiny(o *cli.Opts, run *evid.Run) {
	if !run.Wants("C01/f47") && !strings.HasPrefix(run.Only, "C01/f47") {
		return
	}
	env, err := f47Env()
	if err != nil {
		run.Violate("C01/f47/table", "cannot measure Poseidon2 over F47: "+err.Error(), nil)
		return
	}
	run.Set("f47_poseidon2_table_entries", 47*47)
	for _, dm := range []dim{{1, 1}, {2, 1}, {3, 1}, {1, 2}, {2, 2}, {3, 2}} {
		dkey := fmt.Sprintf("C01/f47/d=%d/b=%d", dm.d, dm.b)
		sys, err := rmon.Compile(p47, &InsGadgetCircuit{Ids: vars(dm.b), Proofs: varss(dm.b, dm.d), Depth: dm.d, Batch: dm.b})
		if err != nil {
			run.Violate(dkey, "harness does not compile over F47: "+err.Error(), nil)
			continue
		}
		n := o.Pick(100, 400)
		type job struct {
			class string
			k     int
		}
		var jobs []job
		for _, cl := range cases.InsClasses {
			if strings.Contains(cl, "2^32") {
				continue
			}
			for k := 0; k < n; k++ {
				jobs = append(jobs, job{cl, k})
			}
		}
		cli.ForEach(len(jobs), 0, func(ji int) {
			j := jobs[ji]
			key := fmt.Sprintf("%s/%s/%d", dkey, j.class, j.k)
			if !run.Wants(key) {
				return
			}
			c, ok := env.Insertion(gen.RNG(o.Seed, key), j.class, dm.d, dm.b)
			if !ok {
				return
			}
			res := sys.Solve(insGadgetAssign(c), nil)
			if res.Accepted != c.Valid {
				run.Violate(key+"/H", fmt.Sprintf("F47 insertion gadget accepted=%v but the specification says valid=%v (class %s)", res.Accepted, c.Valid, j.class), c.Describe())
			}
			run.Case("f47/"+j.class, true, c.Sig(), res.Accepted, c.Describe())
			// odometer over the prover's hint outputs: every hint output wire the compiled system has for this input
			// (discovered by an honest solve, so it follows whatever widths the circuit decomposes into), all 47^k
			// assignments when k <= 2, else the 2 most significant-for-the-attack wires with the rest honest
			if dm.b == 1 && dm.d <= 2 && j.k < o.Pick(20, 100) {
				all := discoverHintWires(sys, insGadgetAssign(c))
				chosen := chooseWires(all, 2)
				accepted := 0
				odometer(len(chosen), func(vals []int64) bool {
					if sys.SolveWith(insGadgetAssign(c), odometerHints(chosen, vals)).Accepted {
						accepted++
						if !c.Valid {
							run.Violate(fmt.Sprintf("%s/odometer/%v", key, vals), fmt.Sprintf("F47 insertion gadget accepts an invalid input with hint outputs %v", vals), c.Describe())
						}
					}
					run.Add("f47_odometer_points", 1)
					return true
				})
				if c.Valid && accepted == 0 {
					run.Violate(key+"/odometer", "no hint assignment makes the F47 gadget accept a valid input", c.Describe())
				}
				run.Add("f47_odometer_inputs_exhausted", 1)
				if len(all) == len(chosen) {
					run.Add("f47_odometer_inputs_fully_enumerated", 1)
				}
				run.Max("f47_hint_wires_per_input", len(all))
			}
		})
	}
	run.Stage("tiny-classes")
	// exhaustive inputs at depth 1 batch 1: all (start, pre, id, sibling) x post in {oracle root, +1, pre}
	sys, err := rmon.Compile(p47, &InsGadgetCircuit{Ids: vars(1), Proofs: varss(1, 1), Depth: 1, Batch: 1})
	if err != nil {
		return
	}
	stride := o.Pick(53, 1) // quick: a PRNG-offset 1/53 slice plus all start indices; thorough: everything
	offset := int(gen.RNG(o.Seed, "C01/f47/exh").Intn(53))
	total := 47 * 47 * 47 * 47
	var count, acc int64
	var mu = make(chan struct{}, 1)
	mu <- struct{}{}
	cli.ForEach(47, 0, func(start int) {
		lc, la := int64(0), int64(0)
		for rest := 0; rest < 47*47*47; rest++ {
			idx := start*47*47*47 + rest
			if stride > 1 && (idx+offset)%stride != 0 {
				continue
			}
			pre, id, sib := int64(rest/(47*47)), int64((rest/47)%47), int64(rest%47)
			c := &cases.Ins{Class: "exhaustive", Depth: 1, Start: big.NewInt(int64(start)), Pre: big.NewInt(pre), Ids: []*big.Int{big.NewInt(id)}, Proofs: [][]*big.Int{{big.NewInt(sib)}}}
			honestPost := ref.Fold(env.H, c.Ids[0], uint64(start&1), c.Proofs[0])
			for pk, post := range []*big.Int{honestPost, new(big.Int).Mod(new(big.Int).Add(honestPost, big.NewInt(1)), p47), big.NewInt(pre)} {
				c.Post = post
				valid := ref.ValidInsertion(env.H, p47, 1, c.Start, c.Pre, c.Post, c.Ids, c.Proofs)
				res := sys.Solve(insGadgetAssign(c), nil)
				lc++
				if res.Accepted {
					la++
				}
				if res.Accepted != valid {
					run.Violate(fmt.Sprintf("C01/f47/exh/%d/%d/%d", start, rest, pk), fmt.Sprintf("F47 depth-1 insertion: accepted=%v, specification valid=%v", res.Accepted, valid), c.Describe())
				}
			}
		}
		<-mu
		count += lc
		acc += la
		mu <- struct{}{}
	})
	run.Set("f47_exhaustive_input_solves", int(count))
	run.Set("f47_exhaustive_input_accepted", int(acc))
	run.Set("f47_exhaustive_complete", stride == 1)
	_ = total
	run.Case("f47/exhaustive-inputs", true, fmt.Sprint("exh", count), acc > 0, map[string]any{"solves": count, "accepted": acc, "stride": stride, "offset": offset})
}
