package main

import (
	"fmt"
	"math/big"
	"math/rand"
	"sort"
	"sync"

	"github.com/consensys/gnark/backend"
	"github.com/consensys/gnark/frontend"
	"github.com/consensys/gnark/test"

	"verifmon/internal/cli"
	"verifmon/internal/evid"
	"verifmon/internal/gen"
	"verifmon/internal/ref"
	"verifmon/internal/rmon"
)

func bitsLSB(b []byte) []frontend.Variable {
	out := make([]frontend.Variable, 0, 8*len(b))
	for _, x := range b {
		for i := 0; i < 8; i++ {
			out = append(out, int((x>>uint(i))&1))
		}
	}
	return out
}

func bits256(b []byte) (out [256]frontend.Variable) {
	for i, v := range bitsLSB(b) {
		out[i] = v
	}
	return
}

func c04Content(r *rand.Rand, kind string, n int) []byte {
	b := make([]byte, n)
	switch kind {
	case "random":
		r.Read(b)
	case "zero":
	case "ones":
		for i := range b {
			b[i] = 0xff
		}
	case "single-set":
		if n > 0 {
			b[r.Intn(n)] = 1 << uint(r.Intn(8))
		}
	case "single-clear":
		for i := range b {
			b[i] = 0xff
		}
		if n > 0 {
			b[r.Intn(n)] &^= 1 << uint(r.Intn(8))
		}
	case "last-byte-set":
		if n > 0 {
			b[n-1] = 0x80
		}
	}
	return b
}

var c04Kinds = []string{"random", "zero", "ones", "single-set", "single-clear", "last-byte-set"}

func digest(sha3 bool, msg []byte) []byte {
	if sha3 {
		return ref.SHA3_256(msg)
	}
	return ref.Keccak256(msg)
}

func domName(sha3 bool) string {
	if sha3 {
		return "sha3"
	}
	return "keccak"
}

func runC04(o *cli.Opts, run *evid.Run) {
	run.Rule("one case = one execution of a harness around keccak.NewKeccak256 / NewSHA3_256 with all 256 output bits asserted equal to Out; " +
		"engine sweep over every byte length 0..N (N=409 quick, 817 thorough) x contents {random, all-zero, all-0xFF, single set bit, single clear bit, last byte 0x80} x both domains, " +
		"positive (reference digest: must accept) and negative (one output bit flipped / the other domain's digest: must reject); compiled R1CS at boundary and production lengths; non-trivial = distinct (domain, message, expected, kind)")
	run.Assume("golang.org/x/crypto/sha3 NewLegacyKeccak256/New256 are the standard functions", "only byte-aligned messages (the property's scope)")
	maxLen := o.Pick(409, 817)
	perLen := o.Pick(2, 6)
	type job struct {
		n    int
		kind string
		sha3 bool
		neg  string // "", "flip", "other-domain"
		key  string
	}
	var jobs []job
	lens := map[int]bool{}
	for n := 0; n <= maxLen; n++ {
		lens[n] = true
	}
	for b := 1; b <= 100; b += 9 { // production lengths: insertion 68+32b, deletion 64+4b
		lens[68+32*b] = true
		lens[64+4*b] = true
	}
	for _, b := range []int{1, 2, 3, 4, 5, 18, 19, 100} {
		if 68+32*b <= 3400 {
			lens[68+32*b] = true
		}
		lens[64+4*b] = true
	}
	var ls []int
	for n := range lens {
		if n <= maxLen || o.Thorough() || n <= 700 {
			ls = append(ls, n)
		}
	}
	sort.Ints(ls)
	for _, n := range ls {
		for _, sha3 := range []bool{false, true} {
			for k := 0; k < perLen; k++ {
				kind := c04Kinds[(n+k*5+boolInt(sha3))%len(c04Kinds)]
				if k == 0 {
					kind = "random"
				}
				jobs = append(jobs, job{n, kind, sha3, "", fmt.Sprintf("C04/engine/%s/len=%d/%s/%d", domName(sha3), n, kind, k)})
			}
			negKind := []string{"flip", "other-domain"}[(n+boolInt(sha3))%2]
			jobs = append(jobs, job{n, "random", sha3, negKind, fmt.Sprintf("C04/engine/%s/len=%d/neg-%s", domName(sha3), n, negKind)})
			if o.Thorough() {
				jobs = append(jobs, job{n, "zero", sha3, "flip", fmt.Sprintf("C04/engine/%s/len=%d/neg-flip-zero", domName(sha3), n)})
			}
		}
	}
	residues := map[int]bool{}
	var resMu = make(chan struct{}, 1)
	resMu <- struct{}{}
	cli.ForEach(len(jobs), 0, func(i int) {
		j := jobs[i]
		if !run.Wants(j.key) {
			return
		}
		r := gen.RNG(o.Seed, j.key)
		msg := c04Content(r, j.kind, j.n)
		want := digest(j.sha3, msg)
		exp := append([]byte{}, want...)
		note := ""
		switch j.neg {
		case "flip":
			bit := r.Intn(256)
			exp[bit/8] ^= 1 << uint(bit%8)
			note = fmt.Sprintf("output bit %d flipped", bit)
		case "other-domain":
			exp = digest(!j.sha3, msg)
			note = "digest of the other domain"
		}
		err := test.IsSolved(&KeccakCircuit{In: vars(8 * j.n), SHA3: j.sha3}, &KeccakCircuit{In: bitsLSB(msg), Out: bits256(exp), SHA3: j.sha3}, rmon.BN254)
		accepted := err == nil
		sample := map[string]any{"domain": domName(j.sha3), "length": j.n, "content": j.kind, "message_prefix": fmt.Sprintf("%x", msg[:min(len(msg), 16)]), "expected": fmt.Sprintf("%x", exp), "negative": note}
		if j.neg == "" && !accepted {
			run.Violate(j.key, fmt.Sprintf("%s gadget rejects the standard digest of a %d-byte %s message: %v", domName(j.sha3), j.n, j.kind, trim(err)), map[string]any{"message": fmt.Sprintf("%x", msg), "digest": fmt.Sprintf("%x", want)})
		}
		if j.neg != "" && accepted {
			run.Violate(j.key, fmt.Sprintf("%s gadget accepts a wrong digest (%s) for a %d-byte message", domName(j.sha3), note, j.n), map[string]any{"message": fmt.Sprintf("%x", msg), "presented": fmt.Sprintf("%x", exp)})
		}
		cls := "engine/" + domName(j.sha3) + "/pos"
		if j.neg != "" {
			cls = "engine/" + domName(j.sha3) + "/neg-" + j.neg
		}
		run.Case(cls, true, fmt.Sprintf("%x|%x", msg, exp), accepted, sample)
		<-resMu
		residues[j.n%136] = true
		resMu <- struct{}{}
	})
	run.Set("distinct_length_residues_mod_136", len(residues))
	run.Set("max_length_bytes", ls[len(ls)-1])
	run.Set("lengths_swept", len(ls))

	// compiled R1CS path at boundary and production lengths
	compiled := []int{0, 1, 135, 136, 137, 100, 132, 272}
	if o.Thorough() {
		compiled = []int{0, 1, 2, 55, 100, 132, 134, 135, 136, 137, 138, 164, 228, 271, 272, 273, 407, 408, 409, 68, 72, 136 + 64}
	}
	cli.ForEach(len(compiled)*2, 4, func(i int) {
		n, sha3 := compiled[i/2], i%2 == 1
		key := fmt.Sprintf("C04/r1cs/%s/len=%d", domName(sha3), n)
		if !run.Wants(key) {
			return
		}
		sys, err := rmon.Compile(rmon.BN254, &KeccakCircuit{In: vars(8 * n), SHA3: sha3})
		if err != nil {
			run.Violate(key, "harness does not compile: "+err.Error(), nil)
			return
		}
		r := gen.RNG(o.Seed, key)
		for k, kind := range []string{"random", "zero", "ones", "single-set"} {
			msg := c04Content(r, kind, n)
			want := digest(sha3, msg)
			res := sys.Solve(&KeccakCircuit{In: bitsLSB(msg), Out: bits256(want), SHA3: sha3}, nil)
			sample := map[string]any{"domain": domName(sha3), "length": n, "content": kind, "constraints": sys.Audit.Constraints}
			if !res.Accepted || res.EvalErr != "" {
				run.Violate(fmt.Sprintf("%s/%d", key, k), fmt.Sprintf("compiled %s gadget rejects the standard digest of a %d-byte %s message: %v %s", domName(sha3), n, kind, trim(res.Err), res.EvalErr), map[string]any{"message": fmt.Sprintf("%x", msg)})
			}
			run.Case("r1cs/"+domName(sha3)+"/pos", true, fmt.Sprintf("%x", msg), res.Accepted, sample)
			run.Add("constraints_rechecked", res.Checked)
			bad := append([]byte{}, want...)
			bit := r.Intn(256)
			bad[bit/8] ^= 1 << uint(bit%8)
			if sys.Solve(&KeccakCircuit{In: bitsLSB(msg), Out: bits256(bad), SHA3: sha3}, nil).Accepted {
				run.Violate(fmt.Sprintf("%s/%d/neg", key, k), fmt.Sprintf("compiled %s gadget accepts a digest with bit %d flipped (%d-byte message)", domName(sha3), bit, n), nil)
			}
			run.Case("r1cs/"+domName(sha3)+"/neg-flip", true, fmt.Sprintf("%x|%d", msg, bit), false, nil)
		}
		if sys.Audit.HintWires != 0 {
			run.Set("keccak_hint_wires", sys.Audit.HintWires)
		}
	})
	// dishonest prover: every hint call the compiled gadget makes (none on a gadget built from xor/and alone) is
	// discovered at run time and answered with forged values; the digest wires are read through a probe
	forgeLens := []int{1, 137}
	if o.Thorough() {
		forgeLens = []int{0, 1, 136, 137, 273}
	}
	cli.ForEach(len(forgeLens)*2, 4, func(i int) {
		n, sha3 := forgeLens[i/2], i%2 == 1
		key := fmt.Sprintf("C04/forge/%s/len=%d", domName(sha3), n)
		if !run.Wants(key) {
			return
		}
		psys, err := rmon.Compile(rmon.BN254, &KeccakProbeCircuit{In: vars(8 * n), SHA3: sha3})
		if err != nil {
			run.Violate(key, "probe harness does not compile: "+err.Error(), nil)
			return
		}
		var std *rmon.Sys
		r := gen.RNG(o.Seed, key)
		for k, kind := range []string{"random", "ones"} {
			msg := c04Content(r, kind, n)
			var want []*big.Int
			for _, b := range bitsLSB(digest(sha3, msg)) {
				want = append(want, big.NewInt(int64(b.(int))))
			}
			confirm := func(outs []*big.Int, opt backend.ProverOption) bool {
				if std == nil {
					if std, err = rmon.Compile(rmon.BN254, &KeccakCircuit{In: vars(8 * n), SHA3: sha3}); err != nil {
						return false
					}
				}
				var out [256]frontend.Variable
				for i := range out {
					out[i] = outs[i]
				}
				return std.SolveWith(&KeccakCircuit{In: bitsLSB(msg), Out: out, SHA3: sha3}, opt).Accepted
			}
			forgeStage(run, fmt.Sprintf("%s/%d", key, k), fmt.Sprintf("%s of a %d-byte %s message", domName(sha3), n, kind), psys,
				func(tag int64) frontend.Circuit { return &KeccakProbeCircuit{In: bitsLSB(msg), Tag: tag, SHA3: sha3} }, want, confirm, o.Pick(8, 40))
		}
	})
	// several hashes inside one circuit over consecutive sub-slices of one buffer (engine and compiled)
	packed := [][]int{{32, 32, 32}, {8, 192}, {136, 1, 135}, {4, 68, 200}}
	cli.ForEach(len(packed)*2, 4, func(i int) {
		parts, sha3 := packed[i/2], i%2 == 1
		key := fmt.Sprintf("C04/packed/%s/%v", domName(sha3), parts)
		if !run.Wants(key) {
			return
		}
		r := gen.RNG(o.Seed, key)
		total := 0
		var bitParts []int
		for _, n := range parts {
			total += n
			bitParts = append(bitParts, 8*n)
		}
		msg := c04Content(r, "random", total)
		outs := make([][256]frontend.Variable, 0, len(parts)+1)
		off := 0
		for _, n := range parts {
			outs = append(outs, bits256(digest(sha3, msg[off:off+n])))
			off += n
		}
		outs = append(outs, bits256(digest(sha3, msg)))
		shape := &PackedKeccakCircuit{In: vars(8 * total), Outs: make([][256]frontend.Variable, len(parts)+1), Parts: bitParts, SHA3: sha3}
		assign := &PackedKeccakCircuit{In: bitsLSB(msg), Outs: outs, Parts: bitParts, SHA3: sha3}
		sample := map[string]any{"domain": domName(sha3), "part_lengths_bytes": parts}
		err := test.IsSolved(shape, assign, rmon.BN254)
		if err != nil {
			run.Violate(key+"/engine", fmt.Sprintf("%s gadget called several times on sub-slices of one buffer does not reproduce the standard digests: %s", domName(sha3), trim(err)), sample)
		}
		run.Case("packed/engine/"+domName(sha3), true, key, err == nil, sample)
		if i < 4 || o.Thorough() {
			sys, cerr := rmon.Compile(rmon.BN254, shape)
			if cerr != nil {
				run.Violate(key+"/r1cs", "packed harness does not compile (inputs left unconstrained?): "+trim(cerr), sample)
			} else {
				res := sys.Solve(assign, nil)
				if !res.Accepted {
					run.Violate(key+"/r1cs", fmt.Sprintf("compiled %s gadget called several times on sub-slices of one buffer rejects the standard digests: %s", domName(sha3), trim(res.Err)), sample)
				}
				run.Case("packed/r1cs/"+domName(sha3), true, key, res.Accepted, sample)
			}
		}
	})
	// circuits using the gadget defined at the same time (both domains, several lengths, engine and compiler)
	{
		var wg sync.WaitGroup
		for g := 0; g < 8; g++ {
			g := g
			wg.Add(1)
			go func() {
				defer wg.Done()
				defer func() {
					if p := recover(); p != nil {
						run.Violate(fmt.Sprintf("C04/concurrent-define/%d/panic", g), fmt.Sprintf("defining Keccak circuits concurrently panics: %v", p), nil)
					}
				}()
				r := gen.RNG(o.Seed, fmt.Sprint("C04/concurrent-define/", g))
				for it := 0; it < o.Pick(6, 40); it++ {
					key := fmt.Sprintf("C04/concurrent-define/%d/%d", g, it)
					if !run.Wants(key) {
						continue
					}
					n := []int{0, 1, 72, 132, 135, 136, 164, 200}[(g+it)%8]
					sha3 := (g+it/2)%2 == 1
					msg := c04Content(r, "random", n)
					err := test.IsSolved(&KeccakCircuit{In: vars(8 * n), SHA3: sha3}, &KeccakCircuit{In: bitsLSB(msg), Out: bits256(digest(sha3, msg)), SHA3: sha3}, rmon.BN254)
					if err != nil {
						run.Violate(key, fmt.Sprintf("%s gadget defined while other Keccak circuits are being defined rejects the standard digest of a %d-byte message: %s", domName(sha3), n, trim(err)), nil)
					}
					run.Case("concurrent-define/"+domName(sha3), true, key, err == nil, map[string]any{"goroutine": g, "length": n})
				}
			}()
		}
		wg.Wait()
	}
	run.Require("length residues mod 136 covered", len(residues), 136)
	run.Require("compiled lengths", len(compiled), 6)
	run.Require("probe systems examined for prover-chosen values", run.GetInt("forge_probe_systems"), 4)
}

func boolInt(b bool) int {
	if b {
		return 1
	}
	return 0
}

func trim(err error) string {
	if err == nil {
		return "<nil>"
	}
	s := err.Error()
	if len(s) > 300 {
		s = s[:300] + "…"
	}
	return s
}
