package main

import (
	"fmt"
	"math/big"
	"math/rand"

	"github.com/consensys/gnark-crypto/ecc"
	"github.com/consensys/gnark/frontend"
	"github.com/consensys/gnark/test"
	"github.com/reilabs/gnark-lean-extractor/v2/abstractor"

	"worldcoin/gnark-mbu/prover"

	"verifmon/internal/cli"
	"verifmon/internal/evid"
	"verifmon/internal/gen"
	"verifmon/internal/rmon"
)

// ToReducedFree calls the gadget without constraining its output: whatever the
// (possibly dishonest) decomposition hint supplies is accepted or rejected by
// the gadget's own checks alone.
type ToReducedFree struct {
	V    frontend.Variable
	Size int
}

func (c *ToReducedFree) Define(api frontend.API) error {
	abstractor.Call1(api, prover.ToReducedBigEndian{Variable: c.V, Size: c.Size})
	return nil
}

func intBits(v *big.Int, n int) []frontend.Variable {
	out := make([]frontend.Variable, n)
	for i := range out {
		out[i] = int(v.Bit(i))
	}
	return out
}

// bigEndianBits is the expected output of ToReducedBigEndian: the n/8-byte
// big-endian form of v, bits least-significant first inside each byte.
func bigEndianBits(v *big.Int, n int) []frontend.Variable {
	b := v.FillBytes(make([]byte, n/8))
	return bitsLSB(b)
}

func curveFields() map[string]*big.Int {
	return map[string]*big.Int{
		"bn254": ecc.BN254.ScalarField(), "bls12-377": ecc.BLS12_377.ScalarField(), "bls12-381": ecc.BLS12_381.ScalarField(),
		"bls24-315": ecc.BLS24_315.ScalarField(), "bls24-317": ecc.BLS24_317.ScalarField(), "bw6-633": ecc.BW6_633.ScalarField(), "bw6-761": ecc.BW6_761.ScalarField(),
	}
}

func alignUp(n int) int { return (n + 7) / 8 * 8 }

func runC06(o *cli.Opts, run *evid.Run) {
	run.Rule("one case = one execution of a harness around ReducedModRCheck / ToReducedBigEndian / FromBinaryBigEndian: " +
		"(i) digits presented directly as inputs: engine over small primes x widths, exhaustive over all boolean patterns for small widths, single non-boolean digits at every position; compiled over F47 and the scalar fields of 7 curves with, for every bit position q, the modulus with bit q flipped and all-zero/all-one/random lower bits, the modulus, modulus+-1, 0, 2^n-1; " +
		"(ii) ToReducedBigEndian compiled with honest hints (output compared bit for bit with the big-endian bytes) and with forged decompositions (v+k*p, non-boolean digits, other values; exhaustive over all 2^8 hint patterns on F47); (iii) FromBinaryBigEndian on edge/random strings incl. values >= order; " +
		"oracle = integer comparison pattern < p and big.Int byte order; non-trivial = distinct (gadget, field, width, assignment)")
	run.Assume("gnark test engine and solver execute the gadget's Define code faithfully", "widths are byte-aligned where the property requires it")
	c06Direct(o, run)
	c06Compiled(o, run)
	c06ToReduced(o, run)
	c06FromBinary(o, run)
	run.Require("bit positions of the BN254 comparator probed", run.GetInt("bn254_positions_probed"), 256)
	run.Require("exhaustive small-width enumerations", run.GetInt("exhaustive_enumerations"), 4)
	run.Require("forged decompositions fired", run.GetInt("forged_hints_fired"), 50)
}

// (i) engine: digits as inputs over small primes
func c06Direct(o *cli.Opts, run *evid.Run) {
	primes := []int64{5, 7, 11, 13, 47, 251, 257, 65521, 65537, 2147483647}
	maxExh := o.Pick(10, 16)
	type job struct {
		p int64
		n int
	}
	var jobs []job
	for _, p := range primes {
		bl := big.NewInt(p).BitLen()
		seen := map[int]bool{}
		for _, n := range []int{bl - 1, bl, bl + 1, alignUp(bl), alignUp(bl) + 8} {
			if n >= 1 && !seen[n] {
				seen[n] = true
				jobs = append(jobs, job{p, n})
			}
		}
	}
	cli.ForEach(len(jobs), 0, func(ji int) {
		j := jobs[ji]
		p := big.NewInt(j.p)
		bl := p.BitLen()
		key := fmt.Sprintf("C06/direct/p=%d/n=%d", j.p, j.n)
		if !run.Wants(key) {
			return
		}
		r := gen.RNG(o.Seed, key)
		circuit := &ReducedCheckCircuit{Bits: vars(j.n)}
		try := func(sub string, digits []frontend.Variable, expect int, sample any) { // expect: 1 accept, 0 reject, -1 unspecified
			err := test.IsSolved(circuit, &ReducedCheckCircuit{Bits: digits}, p)
			acc := err == nil
			if expect >= 0 && acc != (expect == 1) {
				run.Violate(key+"/"+sub, fmt.Sprintf("ReducedModRCheck over F_%d width %d: accepted=%v, expected %v", j.p, j.n, acc, expect == 1), sample)
			}
			run.Case(fmt.Sprintf("direct/p=%d", j.p), true, key+fmt.Sprint(digits), acc, sample)
		}
		boolCase := func(v *big.Int) {
			expect := 1
			if j.n >= bl && v.Cmp(p) >= 0 {
				expect = 0
			}
			try("bool/"+v.Text(2), intBits(v, j.n), expect, map[string]any{"field": j.p, "width": j.n, "pattern_value": v.String(), "below_order": v.Cmp(p) < 0})
		}
		if j.n <= maxExh {
			for v := int64(0); v < 1<<uint(j.n); v++ {
				boolCase(big.NewInt(v))
			}
			run.Add("exhaustive_enumerations", 1)
		} else {
			// every first-difference position against the modulus, both directions, plus edges and random
			pm := new(big.Int).Set(p)
			for q := 0; q < j.n; q++ {
				for _, low := range []string{"zero", "ones", "rand"} {
					v := new(big.Int).Set(pm)
					v.SetBit(v, q, v.Bit(q)^1)
					for b := 0; b < q; b++ {
						switch low {
						case "zero":
							v.SetBit(v, b, 0)
						case "ones":
							v.SetBit(v, b, 1)
						default:
							v.SetBit(v, b, uint(r.Intn(2)))
						}
					}
					boolCase(v)
				}
			}
			for _, v := range []*big.Int{big.NewInt(0), big.NewInt(1), new(big.Int).Sub(p, big.NewInt(1)), new(big.Int).Set(p), new(big.Int).Add(p, big.NewInt(1)),
				new(big.Int).Sub(new(big.Int).Lsh(big.NewInt(1), uint(j.n)), big.NewInt(1))} {
				if v.BitLen() <= j.n {
					boolCase(v)
				}
			}
			for k := 0; k < 64; k++ {
				boolCase(new(big.Int).Rand(r, new(big.Int).Lsh(big.NewInt(1), uint(j.n))))
			}
		}
		// one non-boolean digit at every position on reduced backgrounds: must be rejected when n >= bitlen
		if j.n >= bl {
			for pos := 0; pos < j.n; pos++ {
				vals := []int64{2, 3, j.p - 1, j.p - 2}
				for k := 0; k < 4; k++ {
					vals = append(vals, 2+r.Int63n(j.p-2))
				}
				for _, d := range vals {
					if d < 2 || d >= j.p {
						continue
					}
					bg := new(big.Int).Rand(r, p)
					if r.Intn(3) == 0 {
						bg = big.NewInt(0)
					}
					digits := intBits(bg, j.n)
					digits[pos] = d
					try(fmt.Sprintf("nonbool/%d/%d", pos, d), digits, 0, map[string]any{"field": j.p, "width": j.n, "position": pos, "digit": d, "background": bg.String()})
				}
			}
		}
	})
}

// (i) compiled: F47 exhaustive and the seven curve fields per bit position
func c06Compiled(o *cli.Opts, run *evid.Run) {
	// F47
	p47 := big.NewInt(47)
	widths := []int{6, 8}
	if o.Thorough() {
		widths = append(widths, 16)
	}
	for _, n := range widths {
		key := fmt.Sprintf("C06/r1cs/p=47/n=%d", n)
		if !run.Wants(key) {
			continue
		}
		sys, err := rmon.Compile(p47, &ReducedCheckCircuit{Bits: vars(n)})
		if err != nil {
			run.Violate(key, "harness does not compile over F47: "+err.Error(), nil)
			continue
		}
		total := 1 << uint(n)
		cli.ForEach(total, 0, func(v int) {
			bv := big.NewInt(int64(v))
			res := sys.Solve(&ReducedCheckCircuit{Bits: intBits(bv, n)}, nil)
			want := v < 47
			if res.Accepted != want {
				run.Violate(fmt.Sprintf("%s/bool/%d", key, v), fmt.Sprintf("compiled ReducedModRCheck over F47 width %d pattern %d: accepted=%v", n, v, res.Accepted), nil)
			}
			run.Case("r1cs/p=47", true, fmt.Sprintf("%d/%d", n, v), res.Accepted, map[string]any{"field": 47, "width": n, "pattern_value": v})
		})
		run.Add("exhaustive_enumerations", 1)
		// all non-boolean digits 2..46 at every position over all reduced backgrounds (n=6,8)
		if n <= 8 {
			cli.ForEach(n*45, 0, func(i int) {
				pos, d := i/45, 2+i%45
				for bg := 0; bg < 47; bg++ {
					digits := intBits(big.NewInt(int64(bg)), n)
					digits[pos] = d
					if sys.Solve(&ReducedCheckCircuit{Bits: digits}, nil).Accepted {
						run.Violate(fmt.Sprintf("%s/nonbool/%d/%d/%d", key, pos, d, bg), fmt.Sprintf("compiled ReducedModRCheck over F47 accepts non-boolean digit %d at position %d", d, pos), nil)
					}
					run.Case("r1cs/p=47/nonbool", true, fmt.Sprintf("%d/%d/%d/%d", n, pos, d, bg), false, nil)
				}
			})
		}
	}
	// curve fields
	fields := curveFields()
	names := []string{"bn254", "bls12-377", "bls12-381", "bls24-315", "bls24-317", "bw6-633", "bw6-761"}
	if !o.Thorough() {
		names = []string{"bn254", "bls12-377", "bls12-381", "bw6-761"}
	}
	type fw struct {
		name  string
		extra int
	}
	var fws []fw
	for _, nm := range names {
		fws = append(fws, fw{nm, 0})
	}
	fws = append(fws, fw{"bn254", 8}, fw{"bn254", 256}, fw{"bls12-381", 8}) // widths beyond the first byte-aligned one
	cli.ForEach(len(fws), 0, func(fi int) {
		name := fws[fi].name
		p := fields[name]
		n := alignUp(p.BitLen()) + fws[fi].extra
		key := fmt.Sprintf("C06/r1cs/%s/n=%d", name, n)
		if !run.Wants(key) {
			return
		}
		sys, err := rmon.Compile(p, &ReducedCheckCircuit{Bits: vars(n)})
		if err != nil {
			run.Violate(key, "harness does not compile over "+name+": "+err.Error(), nil)
			return
		}
		r := gen.RNG(o.Seed, key)
		try := func(sub string, v *big.Int) {
			res := sys.Solve(&ReducedCheckCircuit{Bits: intBits(v, n)}, nil)
			want := v.Cmp(p) < 0
			if res.Accepted != want || res.EvalErr != "" {
				run.Violate(key+"/"+sub, fmt.Sprintf("compiled ReducedModRCheck over %s: pattern 0x%s (below order: %v) accepted=%v %s", name, v.Text(16), want, res.Accepted, res.EvalErr), map[string]any{"pattern": "0x" + v.Text(16)})
			}
			run.Case("r1cs/"+name, true, v.Text(16), res.Accepted, map[string]any{"field": name, "width": n, "pattern": "0x" + v.Text(16), "below_order": want, "what": sub})
		}
		for q := 0; q < n; q++ {
			for _, low := range []string{"zero", "ones", "rand"} {
				v := new(big.Int).Set(p)
				v.SetBit(v, q, v.Bit(q)^1)
				for b := 0; b < q; b++ {
					switch low {
					case "zero":
						v.SetBit(v, b, 0)
					case "ones":
						v.SetBit(v, b, 1)
					default:
						v.SetBit(v, b, uint(r.Intn(2)))
					}
				}
				try(fmt.Sprintf("flip%d/%s", q, low), v)
			}
			if name == "bn254" && fws[fi].extra == 0 {
				run.Add("bn254_positions_probed", 1)
			}
		}
		try("order", new(big.Int).Set(p))
		try("order-1", new(big.Int).Sub(p, big.NewInt(1)))
		try("order+1", new(big.Int).Add(p, big.NewInt(1)))
		try("zero", big.NewInt(0))
		try("all-ones", new(big.Int).Sub(new(big.Int).Lsh(big.NewInt(1), uint(n)), big.NewInt(1)))
		if new(big.Int).Lsh(p, 1).BitLen() <= n {
			try("2*order", new(big.Int).Lsh(p, 1))
		}
		for k := 0; k < 32; k++ {
			try(fmt.Sprintf("rand%d", k), new(big.Int).Rand(r, new(big.Int).Lsh(big.NewInt(1), uint(n))))
		}
		// non-boolean digits at every 8th position (BN254: every position)
		step := 8
		if name == "bn254" {
			step = 1
		}
		for pos := 0; pos < n; pos += step {
			bg := new(big.Int).Rand(r, p)
			digits := intBits(bg, n)
			digits[pos] = []any{2, 3, new(big.Int).Sub(p, big.NewInt(1)), new(big.Int).Rand(r, p)}[r.Intn(4)]
			if d, ok := digits[pos].(*big.Int); ok && d.Cmp(big.NewInt(2)) < 0 {
				digits[pos] = 2
			}
			if sys.Solve(&ReducedCheckCircuit{Bits: digits}, nil).Accepted {
				run.Violate(fmt.Sprintf("%s/nonbool/%d", key, pos), fmt.Sprintf("compiled ReducedModRCheck over %s accepts a non-boolean digit at position %d", name, pos), nil)
			}
			run.Case("r1cs/"+name+"/nonbool", true, fmt.Sprintf("%d/%v", pos, digits[pos]), false, nil)
		}
	})
}

// (ii) ToReducedBigEndian
func c06ToReduced(o *cli.Opts, run *evid.Run) {
	p47 := big.NewInt(47)
	// F47: honest over all values, forged over all 2^8 patterns x 47 values
	for _, n := range []int{8, 16} {
		key := fmt.Sprintf("C06/toreduced/p=47/n=%d", n)
		if !run.Wants(key) {
			continue
		}
		sys, err := rmon.Compile(p47, &ToReducedCircuit{Out: vars(n), Size: n})
		if err != nil {
			run.Violate(key, "harness does not compile: "+err.Error(), nil)
			continue
		}
		for v := int64(0); v < 47; v++ {
			bv := big.NewInt(v)
			res := sys.Solve(&ToReducedCircuit{V: bv, Out: bigEndianBits(bv, n), Size: n}, nil)
			if !res.Accepted {
				run.Violate(fmt.Sprintf("%s/honest/%d", key, v), fmt.Sprintf("ToReducedBigEndian over F47 width %d rejects value %d with its big-endian bytes: %v", n, v, trim(res.Err)), nil)
			}
			run.Case("toreduced/p=47/honest", true, fmt.Sprintf("%d/%d", n, v), res.Accepted, map[string]any{"field": 47, "width": n, "value": v})
			// wrong output orders must be rejected: little-endian bytes, MSB-first bits (when they differ)
			le := intBits(bv, n)
			if fmt.Sprint(le) != fmt.Sprint(bigEndianBits(bv, n)) {
				if sys.Solve(&ToReducedCircuit{V: bv, Out: le, Size: n}, nil).Accepted {
					run.Violate(fmt.Sprintf("%s/le/%d", key, v), fmt.Sprintf("ToReducedBigEndian over F47 width %d emits little-endian byte order for %d", n, v), nil)
				}
				run.Case("toreduced/p=47/wrong-order", true, fmt.Sprintf("%d/%d", n, v), false, nil)
			}
		}
		run.Add("exhaustive_enumerations", 1)
	}
	keyF := "C06/toreduced/p=47/forged"
	if run.Wants(keyF) {
		sys, err := rmon.Compile(p47, &ToReducedFree{Size: 8})
		if err != nil {
			run.Violate(keyF, "harness does not compile: "+err.Error(), nil)
		} else {
			cli.ForEach(47, 0, func(vi int) {
				v := big.NewInt(int64(vi))
				accepted := 0
				for pat := 0; pat < 256; pat++ {
					fired := 0
					h := rmon.Hints{rmon.NBitsID: rmon.NBitsWhen(nil, 8, func(_ *big.Int, n int) []*big.Int { return rmon.BitsOf(big.NewInt(int64(pat)), n) }, &fired)}
					res := sys.Solve(&ToReducedFree{V: v, Size: 8}, h)
					want := pat == vi
					if res.Accepted != want {
						run.Violate(fmt.Sprintf("%s/%d/%d", keyF, vi, pat), fmt.Sprintf("ToReducedBigEndian over F47: value %d with hint pattern %d (= %d mod 47) accepted=%v", vi, pat, pat%47, res.Accepted), nil)
					}
					if res.Accepted {
						accepted++
					}
					run.Add("forged_hints_fired", fired)
					run.Case("toreduced/p=47/forged", true, fmt.Sprintf("%d/%d", vi, pat), res.Accepted, map[string]any{"value": vi, "hint_pattern": pat, "congruent": pat%47 == vi})
				}
				// non-boolean digit carrying the excess
				for j := 0; j < 8; j++ {
					for d := int64(2); d < 47; d += 5 {
						fired := 0
						h := rmon.Hints{rmon.NBitsID: rmon.NBitsWhen(nil, 8, func(_ *big.Int, n int) []*big.Int {
							// digits: d at position j, others chosen so that sum == v mod 47 via digit 0 (or 1)
							out := rmon.BitsOf(big.NewInt(0), n)
							out[j] = big.NewInt(d)
							k := 0
							if j == 0 {
								k = 1
							}
							rest := new(big.Int).Sub(v, new(big.Int).Lsh(big.NewInt(d), uint(j)))
							rest.Mod(rest, p47)
							inv := new(big.Int).ModInverse(new(big.Int).Lsh(big.NewInt(1), uint(k)), p47)
							out[k] = rest.Mul(rest, inv).Mod(rest, p47)
							return out
						}, &fired)}
						if sys.Solve(&ToReducedFree{V: v, Size: 8}, h).Accepted {
							run.Violate(fmt.Sprintf("%s/nonbool/%d/%d/%d", keyF, vi, j, d), fmt.Sprintf("ToReducedBigEndian over F47 accepts a non-boolean decomposition of %d (digit %d = %d)", vi, j, d), nil)
						}
						run.Add("forged_hints_fired", fired)
						run.Case("toreduced/p=47/forged-nonbool", true, fmt.Sprintf("%d/%d/%d", vi, j, d), false, nil)
					}
				}
			})
			run.Add("exhaustive_enumerations", 1)
		}
	}
	// curve fields, byte-aligned width >= bitlen: honest edges/random, forged v+k*p, non-boolean digits
	fields := curveFields()
	names := []string{"bn254", "bls12-381", "bw6-761"}
	if o.Thorough() {
		names = []string{"bn254", "bls12-377", "bls12-381", "bls24-315", "bls24-317", "bw6-633", "bw6-761"}
	}
	cli.ForEach(len(names), 0, func(fi int) {
		name := names[fi]
		p := fields[name]
		n := alignUp(p.BitLen())
		key := fmt.Sprintf("C06/toreduced/%s/n=%d", name, n)
		if !run.Wants(key) {
			return
		}
		sys, err := rmon.Compile(p, &ToReducedCircuit{Out: vars(n), Size: n})
		free, err2 := rmon.Compile(p, &ToReducedFree{Size: n})
		if err != nil || err2 != nil {
			run.Violate(key, fmt.Sprint("harness does not compile: ", err, err2), nil)
			return
		}
		r := gen.RNG(o.Seed, key)
		var vals []*big.Int
		for _, c := range gen.MagClasses {
			vals = append(vals, gen.Elem(r, c, p))
		}
		for k := 0; k < o.Pick(24, 200); k++ {
			vals = append(vals, gen.Below(r, p))
		}
		top := new(big.Int).Lsh(big.NewInt(1), uint(n))
		for i, v := range vals {
			res := sys.Solve(&ToReducedCircuit{V: v, Out: bigEndianBits(v, n), Size: n}, nil)
			if !res.Accepted || res.EvalErr != "" {
				run.Violate(fmt.Sprintf("%s/honest/%d", key, i), fmt.Sprintf("ToReducedBigEndian over %s rejects 0x%s with its big-endian bytes: %v %s", name, v.Text(16), trim(res.Err), res.EvalErr), nil)
			}
			run.Case("toreduced/"+name+"/honest", true, v.Text(16), res.Accepted, map[string]any{"field": name, "width": n, "value": "0x" + v.Text(16)})
			bad := bigEndianBits(v, n)
			fb := r.Intn(n)
			bad[fb] = 1 - bad[fb].(int)
			if sys.Solve(&ToReducedCircuit{V: v, Out: bad, Size: n}, nil).Accepted {
				run.Violate(fmt.Sprintf("%s/flip/%d", key, i), fmt.Sprintf("ToReducedBigEndian over %s accepts a wrong output string (bit %d flipped)", name, fb), nil)
			}
			run.Case("toreduced/"+name+"/wrong-output", true, v.Text(16)+fmt.Sprint(fb), false, nil)
			// forged: v + k*p for every admissible k
			for k := int64(1); ; k++ {
				alt := new(big.Int).Add(v, new(big.Int).Mul(big.NewInt(k), p))
				if alt.Cmp(top) >= 0 {
					break
				}
				fired := 0
				h := rmon.Hints{rmon.NBitsID: rmon.NBitsWhen(nil, 0, func(_ *big.Int, nn int) []*big.Int {
					if nn < alt.BitLen() {
						return nil
					}
					return rmon.BitsOf(alt, nn)
				}, &fired)}
				if free.Solve(&ToReducedFree{V: v, Size: n}, h).Accepted {
					run.Violate(fmt.Sprintf("%s/forged/%d/k=%d", key, i, k), fmt.Sprintf("ToReducedBigEndian over %s accepts the decomposition v+%d*order of 0x%s", name, k, v.Text(16)), map[string]any{"value": "0x" + v.Text(16), "k": k})
				}
				run.Add("forged_hints_fired", fired)
				run.Case("toreduced/"+name+"/forged-v+k*p", true, fmt.Sprintf("%s/%d", v.Text(16), k), false, map[string]any{"field": name, "value": "0x" + v.Text(16), "k": k})
				if k > 8 {
					break
				}
			}
		}
		// non-boolean digit at every position (BN254) / every 8th (others)
		step := 8
		if name == "bn254" {
			step = 1
		}
		for j := 0; j < n; j += step {
			v := gen.Below(r, p)
			d := big.NewInt(2 + int64(r.Intn(5)))
			fired := 0
			h := rmon.Hints{rmon.NBitsID: rmon.NBitsWhen(nil, n, func(_ *big.Int, nn int) []*big.Int {
				// canonical bits of (v - d*2^j + bit_j*2^j) with digit j replaced by d: recomposes to v
				w := new(big.Int).Sub(v, new(big.Int).Lsh(d, uint(j)))
				w.Mod(w, p)
				out := rmon.BitsOf(w, nn)
				if out[j].Sign() != 0 { // keep digit j free: fold its bit into d
					out[j] = new(big.Int).Add(d, big.NewInt(1))
				} else {
					out[j] = new(big.Int).Set(d)
				}
				return out
			}, &fired)}
			if free.Solve(&ToReducedFree{V: v, Size: n}, h).Accepted {
				run.Violate(fmt.Sprintf("%s/nonbool/%d", key, j), fmt.Sprintf("ToReducedBigEndian over %s accepts a non-boolean digit at position %d", name, j), nil)
			}
			run.Add("forged_hints_fired", fired)
			run.Case("toreduced/"+name+"/forged-nonbool", true, fmt.Sprintf("%d/%s", j, v.Text(16)), false, nil)
		}
	})
	// a value that needs more than n bits (n = 32 on BN254): rejected honestly and with the low bits forged
	key := "C06/toreduced/bn254/n=32"
	if run.Wants(key) {
		sys, err := rmon.Compile(rmon.BN254, &ToReducedFree{Size: 32})
		sysOut, err2 := rmon.Compile(rmon.BN254, &ToReducedCircuit{Out: vars(32), Size: 32})
		if err != nil || err2 != nil {
			run.Violate(key, fmt.Sprint("harness does not compile: ", err, err2), nil)
			return
		}
		r := gen.RNG(o.Seed, key)
		two32 := new(big.Int).Lsh(big.NewInt(1), 32)
		var over []*big.Int
		over = append(over, two32, new(big.Int).Add(two32, big.NewInt(1)), new(big.Int).Sub(rmon.BN254, big.NewInt(1)), new(big.Int).Lsh(big.NewInt(1), 33), new(big.Int).Lsh(big.NewInt(1), 253))
		for k := 0; k < o.Pick(40, 400); k++ {
			over = append(over, new(big.Int).Add(two32, gen.Below(r, rmon.BN254)))
		}
		for i, v := range over {
			v.Mod(v, rmon.BN254)
			if v.Cmp(two32) < 0 {
				continue
			}
			if sys.Solve(&ToReducedFree{V: v, Size: 32}, nil).Accepted {
				run.Violate(fmt.Sprintf("%s/over/%d", key, i), fmt.Sprintf("ToReducedBigEndian width 32 accepts 0x%s, which needs more than 32 bits", v.Text(16)), nil)
			}
			fired := 0
			h := rmon.Hints{rmon.NBitsID: rmon.NBitsWhen(nil, 32, func(x *big.Int, nn int) []*big.Int { return rmon.BitsOf(x, nn) }, &fired)}
			if sys.Solve(&ToReducedFree{V: v, Size: 32}, h).Accepted {
				run.Violate(fmt.Sprintf("%s/over-low/%d", key, i), fmt.Sprintf("ToReducedBigEndian width 32 accepts the low 32 bits of 0x%s", v.Text(16)), nil)
			}
			run.Add("forged_hints_fired", fired)
			run.Case("toreduced/bn254/n=32/too-wide", true, v.Text(16), false, map[string]any{"value": "0x" + v.Text(16), "width": 32})
		}
		for k := 0; k < o.Pick(40, 400); k++ {
			v := new(big.Int).SetUint64(uint64(r.Uint32()))
			if k < 4 {
				v = []*big.Int{big.NewInt(0), big.NewInt(1), new(big.Int).Sub(two32, big.NewInt(1)), big.NewInt(1 << 31)}[k]
			}
			res := sysOut.Solve(&ToReducedCircuit{V: v, Out: bigEndianBits(v, 32), Size: 32}, nil)
			if !res.Accepted {
				run.Violate(fmt.Sprintf("%s/honest/%d", key, k), fmt.Sprintf("ToReducedBigEndian width 32 rejects %s with its big-endian bytes", v), nil)
			}
			run.Case("toreduced/bn254/n=32/honest", true, v.Text(16), res.Accepted, map[string]any{"value": v.String(), "width": 32})
		}
	}
}

// (iii) FromBinaryBigEndian
func c06FromBinary(o *cli.Opts, run *evid.Run) {
	type cfg struct {
		name  string
		field *big.Int
		n     int
	}
	cfgs := []cfg{{"bn254", rmon.BN254, 256}, {"bn254", rmon.BN254, 64}, {"bn254", rmon.BN254, 8}, {"f47", big.NewInt(47), 8}, {"f47", big.NewInt(47), 16}, {"bls12-381", ecc.BLS12_381.ScalarField(), 256}}
	cli.ForEach(len(cfgs), 0, func(ci int) {
		c := cfgs[ci]
		key := fmt.Sprintf("C06/frombinary/%s/n=%d", c.name, c.n)
		if !run.Wants(key) {
			return
		}
		sys, err := rmon.Compile(c.field, &FromBinaryCircuit{Bits: vars(c.n)})
		if err != nil {
			run.Violate(key, "harness does not compile: "+err.Error(), nil)
			return
		}
		r := gen.RNG(o.Seed, key)
		top := new(big.Int).Lsh(big.NewInt(1), uint(c.n))
		var vals []*big.Int
		vals = append(vals, big.NewInt(0), big.NewInt(1), new(big.Int).Sub(top, big.NewInt(1)), big.NewInt(0x80), big.NewInt(0x0102))
		if c.field.Cmp(top) < 0 {
			vals = append(vals, new(big.Int).Set(c.field), new(big.Int).Add(c.field, big.NewInt(1)), new(big.Int).Sub(c.field, big.NewInt(1)))
		}
		for k := 0; k < o.Pick(60, 1000); k++ {
			vals = append(vals, new(big.Int).Rand(r, top))
		}
		if c.n <= 8 {
			vals = nil
			for v := int64(0); v < 256; v++ {
				vals = append(vals, big.NewInt(v))
			}
		}
		for i, v := range vals {
			if v.Cmp(top) >= 0 {
				continue
			}
			bitsBE := bigEndianBits(v, c.n)
			want := new(big.Int).Mod(v, c.field)
			res := sys.Solve(&FromBinaryCircuit{Bits: bitsBE, Out: want}, nil)
			if !res.Accepted {
				run.Violate(fmt.Sprintf("%s/%d", key, i), fmt.Sprintf("FromBinaryBigEndian over %s width %d: string of 0x%s does not recompose to the integer mod order", c.name, c.n, v.Text(16)), nil)
			}
			run.Case("frombinary/"+c.name, true, fmt.Sprintf("%d/%s", c.n, v.Text(16)), res.Accepted, map[string]any{"field": c.name, "width": c.n, "value": "0x" + v.Text(16), "ge_order": v.Cmp(c.field) >= 0})
			bad := new(big.Int).Add(want, big.NewInt(1))
			bad.Mod(bad, c.field)
			if sys.Solve(&FromBinaryCircuit{Bits: bitsBE, Out: bad}, nil).Accepted {
				run.Violate(fmt.Sprintf("%s/%d/neg", key, i), "FromBinaryBigEndian accepts a wrong recomposition", nil)
			}
			if i < 6 && c.name != "f47" {
				if err := test.IsSolved(&FromBinaryCircuit{Bits: vars(c.n)}, &FromBinaryCircuit{Bits: bitsBE, Out: want}, c.field); err != nil {
					run.Violate(fmt.Sprintf("%s/%d/engine", key, i), "test engine: FromBinaryBigEndian wrong: "+trim(err), nil)
				}
			}
		}
	})
}

var _ = rand.Int
