package main

import (
	"math/big"
	"testing"

	"github.com/consensys/gnark/frontend"
	"github.com/consensys/gnark/logger"

	"verifmon/internal/rmon"
)

func BenchmarkF47Solve(b *testing.B) {
	logger.Disable()
	sys, err := rmon.Compile(p47, &InsGadgetCircuit{Ids: vars(1), Proofs: varss(1, 1), Depth: 1, Batch: 1})
	if err != nil {
		b.Fatal(err)
	}
	as := &InsGadgetCircuit{Start: big.NewInt(0), Pre: big.NewInt(3), Post: big.NewInt(4), Ids: []frontend.Variable{big.NewInt(5)}, Proofs: [][]frontend.Variable{{big.NewInt(6)}}}
	b.Run("full", func(b *testing.B) {
		for i := 0; i < b.N; i++ {
			sys.Solve(as, nil)
		}
	})
	b.Run("witness", func(b *testing.B) {
		for i := 0; i < b.N; i++ {
			frontend.NewWitness(as, p47)
		}
	})
	w, _ := frontend.NewWitness(as, p47)
	b.Run("issolved", func(b *testing.B) {
		for i := 0; i < b.N; i++ {
			sys.CCS.IsSolved(w)
		}
	})
}

func BenchmarkF47Parallel(b *testing.B) {
	logger.Disable()
	sys, _ := rmon.Compile(p47, &InsGadgetCircuit{Ids: vars(1), Proofs: varss(1, 1), Depth: 1, Batch: 1})
	as := &InsGadgetCircuit{Start: big.NewInt(0), Pre: big.NewInt(3), Post: big.NewInt(4), Ids: []frontend.Variable{big.NewInt(5)}, Proofs: [][]frontend.Variable{{big.NewInt(6)}}}
	w, _ := frontend.NewWitness(as, p47)
	b.RunParallel(func(pb *testing.PB) {
		for pb.Next() {
			sys.CCS.IsSolved(w)
		}
	})
}
