package main

import (
	"fmt"
	"math/big"
	"strings"

	"worldcoin/gnark-mbu/prover"

	"verifmon/internal/cases"
	"verifmon/internal/cli"
	"verifmon/internal/conv"
	"verifmon/internal/evid"
	"verifmon/internal/gen"
	"verifmon/internal/ref"
	"verifmon/internal/rmon"
	"verifmon/internal/sysutil"
)

// skipForgeries target the skip digit (bit number `depth` of a deletion index).
func skipForgeries(depth int, m *big.Int) []strategy {
	n := depth + 1
	lim := new(big.Int).Lsh(big.NewInt(1), uint(depth))
	return []strategy{
		// a real index (< 2^depth) decomposed with the skip digit set and a compensating non-boolean low digit
		{"Nskip1", func(fired *int) rmon.Hints {
			return rmon.Hints{rmon.NBitsID: rmon.NBitsWhen(nil, n, func(v *big.Int, nn int) []*big.Int {
				if v.Cmp(lim) >= 0 {
					return nil
				}
				alias := new(big.Int).Add(v, lim) // same low bits, skip digit 1
				return nonBoolean(v, nn, alias, 0, m)
			}, fired)}
		}, func(indices []*big.Int, valid bool) bool {
			return !valid && anyIndex(indices, func(v *big.Int) bool { return v.Cmp(lim) < 0 })
		}},
		// a padding index (skip bit set) decomposed with the skip digit cleared
		{"Nskip0", func(fired *int) rmon.Hints {
			return rmon.Hints{rmon.NBitsID: rmon.NBitsWhen(nil, n, func(v *big.Int, nn int) []*big.Int {
				if v.Cmp(lim) < 0 || v.BitLen() > n {
					return nil
				}
				alias := new(big.Int).Sub(v, lim)
				j := 0
				if depth > 1 {
					j = depth - 1
				}
				return nonBoolean(v, nn, alias, j, m)
			}, fired)}
		}, func(indices []*big.Int, valid bool) bool {
			return !valid && anyIndex(indices, func(v *big.Int) bool { return v.Cmp(lim) >= 0 && v.BitLen() <= n })
		}},
		// the excess carried by the skip digit itself
		{"NskipDigit", func(fired *int) rmon.Hints {
			return rmon.Hints{rmon.NBitsID: rmon.NBitsWhen(nil, n, func(v *big.Int, nn int) []*big.Int {
				if v.BitLen() <= n {
					return nil
				}
				return nonBoolean(v, nn, new(big.Int).And(v, new(big.Int).Sub(lim, big.NewInt(1))), depth, m)
			}, fired)}
		}, func(indices []*big.Int, valid bool) bool {
			return !valid && anyIndex(indices, func(v *big.Int) bool { return v.BitLen() > n })
		}},
	}
}

func runC02(o *cli.Opts, run *evid.Run) {
	run.Rule("one case = one solve of the real compiled R1CS (gadget harness DeletionProof+PostRoot equality, or the full circuit from BuildR1CSDeletion) on a PRNG-generated batch of a named class (members, padding in every flavour incl. padding slots carrying genuine proofs, duplicates, already-empty leaves, over-range indices, stale/corrupt paths), " +
		"under honest hints and under dishonest tables (non-boolean index digits, forged skip digit, lying is-zero inverse); verdict compared with ValidDeletion; tiny-field sub-runs enumerate all hint outputs (47^3 per input at depth 1); non-trivial = distinct (dimension, full assignment)")
	run.Assume("iden3 Poseidon is the reference hash (BN254); over F47 the gadget's own measured table",
		"prover freedom = secret inputs + outputs of NBits/InvZero hints (structure audit of every compiled system)")
	var dims []dim
	if o.Thorough() {
		for d := 1; d <= 31; d++ {
			for b := 1; b <= 6; b++ {
				dims = append(dims, dim{d, b})
			}
		}
		dims = append(dims, dim{4, 16}, dim{10, 16}, dim{20, 16}, dim{5, 32}, dim{31, 8})
	} else {
		for _, d := range []int{1, 2, 3, 5, 16, 30, 31} {
			for _, b := range []int{1, 2, 3} {
				dims = append(dims, dim{d, b})
			}
		}
		dims = append(dims, dim{8, 8}, dim{20, 4})
	}
	perClass := o.Pick(10, 24)
	auditOK := true
	strategiesFor := func(d int) []strategy {
		s := indexStrategies(d+1, ref.R)
		s = append(s, skipForgeries(d, ref.R)...)
		s = append(s, invZeroStrategies(ref.R, o.Seed)...)
		s = append(s, aliasStrategies(ref.R)...)
		return s
	}
	cli.ForEach(len(dims), 6, func(di int) {
		dm := dims[di]
		dkey := fmt.Sprintf("C02/gadget/d=%d/b=%d", dm.d, dm.b)
		if !run.Wants(dkey) && !strings.HasPrefix(run.Only, dkey) {
			return
		}
		sys, err := rmon.Compile(rmon.BN254, &DelGadgetCircuit{Indices: vars(dm.b), Items: vars(dm.b), Proofs: varss(dm.b, dm.d), Depth: dm.d, Batch: dm.b})
		if err != nil {
			run.Violate(dkey, "harness does not compile: "+err.Error(), nil)
			return
		}
		if !auditReport(run, dkey, sys) {
			auditOK = false
		}
		strat := strategiesFor(dm.d)
		type job struct {
			class string
			k     int
		}
		var jobs []job
		for _, cl := range cases.DelClasses {
			for k := 0; k < perClass; k++ {
				jobs = append(jobs, job{cl, k})
			}
		}
		cli.ForEach(len(jobs), 4, func(ji int) {
			j := jobs[ji]
			key := fmt.Sprintf("%s/%s/%d", dkey, j.class, j.k)
			if !run.Wants(key) {
				return
			}
			c, ok := cases.BN254.Deletion(gen.RNG(o.Seed, key), j.class, dm.d, dm.b)
			if !ok {
				return
			}
			judge(run, sys, key, "gadget/"+j.class, c.Valid, delGadgetAssign(c), strat, c.Indices, c.Sig(), c.Describe())
		})
	})
	run.Stage("gadget")
	// all 2^B padding masks for B <= 4 at one depth
	for _, b := range []int{1, 2, 3, 4} {
		dkey := fmt.Sprintf("C02/masks/d=4/b=%d", b)
		if !run.Wants(dkey) && !strings.HasPrefix(run.Only, dkey) {
			continue
		}
		sys, err := rmon.Compile(rmon.BN254, &DelGadgetCircuit{Indices: vars(b), Items: vars(b), Proofs: varss(b, 4), Depth: 4, Batch: b})
		if err != nil {
			continue
		}
		cli.ForEach(1<<uint(b), 0, func(mask int) {
			for k := 0; k < o.Pick(2, 10); k++ {
				key := fmt.Sprintf("%s/mask=%d/%d", dkey, mask, k)
				if !run.Wants(key) {
					continue
				}
				c := maskCase(gen.RNG(o.Seed, key), 4, b, mask)
				judge(run, sys, key, fmt.Sprintf("masks/b=%d", b), c.Valid, delGadgetAssign(c), nil, c.Indices, c.Sig(), c.Describe())
				if !c.Valid {
					run.Violate(key+"/gen", "monitor bug: mask case judged invalid by the oracle", c.Describe())
				}
			}
		})
		run.Add("padding_masks_enumerated", 1<<uint(b))
	}
	run.Stage("masks")
	// full circuits
	full := []dim{{3, 2}, {1, 1}, {31, 1}} // (31,1): the documented maximum depth of the deletion circuit
	if o.Thorough() {
		full = []dim{{3, 2}, {1, 1}, {2, 3}, {31, 1}, {4, 18}, {10, 3}, {30, 2}}
	}
	perFull := o.Pick(3, 8)
	cli.ForEach(len(full), 2, func(di int) {
		dm := full[di]
		dkey := fmt.Sprintf("C02/full/d=%d/b=%d", dm.d, dm.b)
		if !run.Wants(dkey) && !strings.HasPrefix(run.Only, dkey) {
			return
		}
		ccs, err := prover.BuildR1CSDeletion(uint32(dm.d), uint32(dm.b))
		if err != nil {
			run.Violate(dkey, "BuildR1CSDeletion failed: "+err.Error(), nil)
			return
		}
		sys := rmon.Wrap(ccs)
		if !auditReport(run, dkey, sys) {
			auditOK = false
		}
		strat := append(strategiesFor(dm.d), indexStrategies(32, ref.R)...)
		type job struct {
			class string
			k     int
		}
		var jobs []job
		for _, cl := range cases.DelClasses {
			for k := 0; k < perFull; k++ {
				jobs = append(jobs, job{cl, k})
			}
		}
		cli.ForEach(len(jobs), 4, func(ji int) {
			j := jobs[ji]
			key := fmt.Sprintf("%s/%s/%d", dkey, j.class, j.k)
			if !run.Wants(key) {
				return
			}
			c, ok := cases.BN254.Deletion(gen.RNG(o.Seed, key), j.class, dm.d, dm.b)
			if !ok {
				return
			}
			valid := c.Valid
			for _, ix := range c.Indices {
				if ix.Cmp(two32) >= 0 {
					valid = false
				}
			}
			judge(run, sys, key, "full/"+j.class, valid, delFullAssign(c, delHash(c)), strat, c.Indices, c.Sig(), c.Describe())
			// the prover's front door: ProveDeletion first runs ValidateShape on the parameters. A batch the
			// specification accepts (and the circuit can satisfy) must not be refused there.
			if valid && sysutil.DelFits(c) {
				if err := conv.ToRepoDel(sysutil.DelParams(c)).ValidateShape(uint32(dm.d), uint32(dm.b)); err != nil {
					run.Violate(key+"/validate-shape", fmt.Sprintf("a batch the specification accepts (class %s) is refused by the prover's parameter check before proving: %v", j.class, err), c.Describe())
				}
				run.Add("prover_front_door_checks", 1)
			}
		})
	})
	run.Stage("full")
	// depth 32 must be refused at build time
	if run.Wants("C02/depth32") {
		if _, err := prover.BuildR1CSDeletion(32, 1); err == nil {
			run.Violate("C02/depth32", "BuildR1CSDeletion(32,1) succeeded; deletion circuits deeper than 31 must be refused", nil)
		}
		run.Case("depth32-refused", true, "depth32", false, map[string]any{"depth": 32, "batch": 1})
	}
	c02Tiny(o, run)
	run.Stage("tiny")
	if !auditOK {
		run.Require("structure audit clean on every compiled system", 0, 1)
	}
	acc, rej := 0, 0
	for _, cl := range cases.DelClasses {
		t := run.ClassTally("gadget/" + cl)
		acc += t.Accepted
		rej += t.Rejected
	}
	run.Require("accepted valid gadget cases", acc, 20)
	run.Require("rejected invalid gadget cases", rej, 50)
	run.Require("dishonest solves", run.GetInt("dishonest_solves"), 30)
	run.Require("padding-with-genuine-proof cases accepted", run.ClassTally("gadget/valid/padding-genuine-proof").Accepted, 5)
	run.Require("tiny-field hint-odometer points", run.GetInt("f47_odometer_points"), 100000)
}

// maskCase builds a valid batch whose slot i is padding iff bit i of mask is set.
func maskCase(r interface {
	Intn(int) int
	Uint64() uint64
}, depth, batch, mask int) *cases.Del {
	rr := gen.RNG(int64(r.Uint64()>>1), "mask")
	e := cases.BN254
	t := e.RandomTree(rr, depth)
	n := uint64(1) << uint(depth)
	c := &cases.Del{Class: "mask", Depth: depth, Pre: t.Root()}
	for i := 0; i < batch; i++ {
		if mask>>uint(i)&1 == 1 {
			c.Indices = append(c.Indices, new(big.Int).SetUint64(n+rr.Uint64()%n))
			c.Items = append(c.Items, gen.Below(rr, ref.R))
			p := make([]*big.Int, depth)
			for j := range p {
				p[j] = gen.Below(rr, ref.R)
			}
			c.Proofs = append(c.Proofs, p)
			continue
		}
		j := rr.Uint64() % n
		c.Indices = append(c.Indices, new(big.Int).SetUint64(j))
		c.Items = append(c.Items, t.Get(j))
		c.Proofs = append(c.Proofs, t.Path(j))
		t.Set(j, big.NewInt(0))
	}
	c.Post = t.Root()
	c.Valid = ref.ValidDeletion(e.H, e.Mod, depth, c.Indices, c.Pre, c.Post, c.Items, c.Proofs)
	return c
}

func c02Tiny(o *cli.Opts, run *evid.Run) {
	if !run.Wants("C02/f47") && !strings.HasPrefix(run.Only, "C02/f47") {
		return
	}
	env, err := f47Env()
	if err != nil {
		run.Violate("C02/f47/table", "cannot measure Poseidon2 over F47: "+err.Error(), nil)
		return
	}
	for _, dm := range []dim{{1, 1}, {2, 1}, {1, 2}, {2, 2}, {3, 2}} {
		dkey := fmt.Sprintf("C02/f47/d=%d/b=%d", dm.d, dm.b)
		sys, err := rmon.Compile(p47, &DelGadgetCircuit{Indices: vars(dm.b), Items: vars(dm.b), Proofs: varss(dm.b, dm.d), Depth: dm.d, Batch: dm.b})
		if err != nil {
			run.Violate(dkey, "harness does not compile over F47: "+err.Error(), nil)
			continue
		}
		n := o.Pick(100, 400)
		type job struct {
			class string
			k     int
		}
		var jobs []job
		for _, cl := range cases.DelClasses {
			for k := 0; k < n; k++ {
				jobs = append(jobs, job{cl, k})
			}
		}
		cli.ForEach(len(jobs), 0, func(ji int) {
			j := jobs[ji]
			key := fmt.Sprintf("%s/%s/%d", dkey, j.class, j.k)
			if !run.Wants(key) {
				return
			}
			c, ok := env.Deletion(gen.RNG(o.Seed, key), j.class, dm.d, dm.b)
			if !ok {
				return
			}
			res := sys.Solve(delGadgetAssign(c), nil)
			if res.Accepted != c.Valid {
				run.Violate(key+"/H", fmt.Sprintf("F47 deletion gadget accepted=%v but the specification says valid=%v (class %s)", res.Accepted, c.Valid, j.class), c.Describe())
			}
			run.Case("f47/"+j.class, true, c.Sig(), res.Accepted, c.Describe())
			// odometer: every hint output wire of the compiled system for this input (depth 1 batch 1: 2 index digits +
			// 1 is-zero inverse = 47^3 points), discovered by an honest solve; at most 3 wires are enumerated
			if dm.b == 1 && dm.d == 1 && j.k < o.Pick(2, 12) {
				all := discoverHintWires(sys, delGadgetAssign(c))
				chosen := chooseWires(all, 3)
				accepted := 0
				odometer(len(chosen), func(vals []int64) bool {
					if sys.SolveWith(delGadgetAssign(c), odometerHints(chosen, vals)).Accepted {
						accepted++
						if !c.Valid {
							run.Violate(fmt.Sprintf("%s/odometer/%v", key, vals), fmt.Sprintf("F47 deletion gadget accepts an invalid input with hint outputs %v", vals), c.Describe())
						}
					}
					run.Add("f47_odometer_points", 1)
					return true
				})
				if c.Valid && accepted == 0 {
					run.Violate(key+"/odometer", "no hint assignment makes the F47 gadget accept a valid input", c.Describe())
				}
				run.Add("f47_odometer_inputs_exhausted", 1)
				if len(all) == len(chosen) {
					run.Add("f47_odometer_inputs_fully_enumerated", 1)
				}
				run.Max("f47_hint_wires_per_input", len(all))
			}
		})
	}
}
