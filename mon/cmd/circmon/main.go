// circmon: monitors of the circuits and gadgets (C01-C06). The real compiled
// R1CS and gnark's test engine execute the repository's Define code; oracles
// are the reference specs in internal/ref.
package main

import (
	"fmt"
	"os"

	"github.com/consensys/gnark/logger"

	"verifmon/internal/cli"
	"verifmon/internal/evid"
)

var monitors = map[string]func(*cli.Opts, *evid.Run){
	"C01": runC01, "C02": runC02, "C03": runC03, "C04": runC04, "C05": runC05, "C06": runC06,
}

func main() {
	logger.Disable()
	levels := map[string]string{}
	for k := range monitors {
		levels[k] = "exploration"
	}
	o, run := cli.Parse(levels)
	defer func() {
		if p := recover(); p != nil {
			fmt.Fprintf(os.Stderr, "monitor panic: %v\n", p)
			panic(p)
		}
	}()
	cli.Guard("monitor body", func() { monitors[o.Prop](o, run) })
	os.Exit(run.Finish())
}
