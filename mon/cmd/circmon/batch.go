package main

import (
	"fmt"
	"math/big"

	"github.com/consensys/gnark/frontend"

	"worldcoin/gnark-mbu/prover"

	"verifmon/internal/cases"
	"verifmon/internal/evid"
	"verifmon/internal/ref"
	"verifmon/internal/rmon"
)

func insGadgetAssign(c *cases.Ins) frontend.Circuit {
	return &InsGadgetCircuit{Start: c.Start, Pre: c.Pre, Post: c.Post, Ids: assign(c.Ids), Proofs: assignss(c.Proofs)}
}

func delGadgetAssign(c *cases.Del) frontend.Circuit {
	return &DelGadgetCircuit{Pre: c.Pre, Post: c.Post, Indices: assign(c.Indices), Items: assign(c.Items), Proofs: assignss(c.Proofs)}
}

var two32 = new(big.Int).Lsh(big.NewInt(1), 32)

func low32(v *big.Int) uint32 {
	return uint32(new(big.Int).And(v, new(big.Int).Sub(two32, big.NewInt(1))).Uint64())
}

// insHash is the on-chain hash of the case's own field values (indices that do
// not fit 32 bits enter with their low 32 bits: the circuit must reject those
// through the 32-bit decomposition).
func insHash(c *cases.Ins) *big.Int {
	return ref.HashToField(ref.PackInsertion(low32(c.Start), c.Pre, c.Post, c.Ids))
}

func delHash(c *cases.Del) *big.Int {
	idx := make([]uint32, len(c.Indices))
	for i, v := range c.Indices {
		idx[i] = low32(v)
	}
	return ref.HashToField(ref.PackDeletion(idx, c.Pre, c.Post))
}

func insFullAssign(c *cases.Ins, hash *big.Int) frontend.Circuit {
	return &prover.InsertionMbuCircuit{InputHash: hash, StartIndex: c.Start, PreRoot: c.Pre, PostRoot: c.Post, IdComms: assign(c.Ids), MerkleProofs: assignss(c.Proofs)}
}

func delFullAssign(c *cases.Del, hash *big.Int) frontend.Circuit {
	return &prover.DeletionMbuCircuit{InputHash: hash, DeletionIndices: assign(c.Indices), PreRoot: c.Pre, PostRoot: c.Post, IdComms: assign(c.Items), MerkleProofs: assignss(c.Proofs)}
}

// strategy is one dishonest hint table.
type strategy struct {
	name  string
	hints func(fired *int) rmon.Hints
	// applies decides cheaply, from the index values of the case and the oracle's verdict, whether the
	// strategy can fire at all and is informative (a dishonest hint on a valid input proves nothing)
	applies func(indices []*big.Int, valid bool) bool
}

func anyIndex(indices []*big.Int, pred func(*big.Int) bool) bool {
	for _, v := range indices {
		if pred(v) {
			return true
		}
	}
	return false
}

func modInv2(j int, m *big.Int) *big.Int {
	return new(big.Int).ModInverse(new(big.Int).Lsh(big.NewInt(1), uint(j)), m)
}

// nonBoolean returns a decomposition of v into n digits that recomposes to v
// modulo m, equals the bits of `alias` everywhere except at digit j, which
// carries the excess (generally non-boolean).
func nonBoolean(v *big.Int, n int, alias *big.Int, j int, m *big.Int) []*big.Int {
	out := rmon.BitsOf(alias, n)
	rest := new(big.Int)
	for k := 0; k < n; k++ {
		if k != j && out[k].Sign() != 0 {
			rest.Add(rest, new(big.Int).Lsh(big.NewInt(1), uint(k)))
		}
	}
	d := new(big.Int).Sub(v, rest)
	d.Mul(d, modInv2(j, m))
	d.Mod(d, m)
	out[j] = d
	return out
}

// nonBooleanSplit returns the canonical bits of v with digit j raised by 2 and
// digit j+1 lowered by 1 (mod m): the digits still recompose to v but digit j is
// 2 or 3. Requires 0 <= j < n-1.
func nonBooleanSplit(v *big.Int, n, j int, m *big.Int) []*big.Int {
	out := rmon.BitsOf(v, n)
	out[j] = new(big.Int).Add(out[j], big.NewInt(2))
	out[j+1] = new(big.Int).Mod(new(big.Int).Sub(out[j+1], big.NewInt(1)), m)
	return out
}

// indexStrategies forge the index decomposition of width n for values that do
// not fit n bits: the low bits spell the aliased leaf, one digit carries the rest.
func indexStrategies(n int, m *big.Int) []strategy {
	lim := new(big.Int).Lsh(big.NewInt(1), uint(n))
	mask := new(big.Int).Sub(lim, big.NewInt(1))
	tooWide := func(indices []*big.Int, valid bool) bool {
		return !valid && anyIndex(indices, func(v *big.Int) bool { return v.Cmp(lim) >= 0 })
	}
	mk := func(name string, j int) strategy {
		return strategy{name, func(fired *int) rmon.Hints {
			return rmon.Hints{rmon.NBitsID: rmon.NBitsWhen(nil, n, func(v *big.Int, nn int) []*big.Int {
				if v.Cmp(lim) < 0 {
					return nil
				}
				return nonBoolean(v, nn, new(big.Int).And(v, mask), j, m)
			}, fired)}
		}, tooWide}
	}
	out := []strategy{mk("Nnb(0)", 0)}
	if n > 1 {
		out = append(out, mk(fmt.Sprintf("Nnb(%d)", n-1), n-1))
	}
	if n > 2 {
		out = append(out, mk(fmt.Sprintf("Nnb(%d)", n/2), n/2))
	}
	// Nwrong: bits of the aliased value only (recomposition must catch it) — this
	// is also what the library's own hint returns, listed for the tally
	out = append(out, strategy{"Nwrong(alias+1)", func(fired *int) rmon.Hints {
		return rmon.Hints{rmon.NBitsID: rmon.NBitsWhen(nil, n, func(v *big.Int, nn int) []*big.Int {
			if v.Cmp(lim) < 0 {
				return nil
			}
			return rmon.BitsOf(new(big.Int).Add(new(big.Int).And(v, mask), big.NewInt(1)), nn)
		}, fired)}
	}, tooWide})
	return out
}

// aliasStrategies answer decompositions of the case's own index values that are wide enough to hold
// value + modulus with the bits of that alias — for all such calls (nth = -1) or only for the nth one (a circuit may
// decompose an index twice: once for a range check, once for the path). They never fire on a circuit that only
// decomposes indices into fewer bits than the field has.
func aliasStrategies(m *big.Int) []strategy {
	var out []strategy
	for _, nth := range []int{-1, 0, 1, 2} {
		nth := nth
		name := "Nalias+r(all calls)"
		if nth >= 0 {
			name = fmt.Sprintf("Nalias+r(call %d)", nth)
		}
		out = append(out, strategy{name, func(fired *int) rmon.Hints {
			return rmon.Hints{rmon.NBitsID: rmon.NBitsNth(nil, 0, nth, func(v *big.Int, nn int) []*big.Int {
				alt := new(big.Int).Add(v, m)
				if nn < alt.BitLen() || v.BitLen() > 40 { // only index-sized values, only calls wide enough
					return nil
				}
				return rmon.BitsOf(alt, nn)
			}, fired)}
		}, func(_ []*big.Int, valid bool) bool { return !valid }})
	}
	return out
}

// invZeroStrategies lie about the is-zero inverse.
func invZeroStrategies(m *big.Int, seed int64) []strategy {
	return []strategy{
		{"Z0", func(fired *int) rmon.Hints {
			return rmon.Hints{rmon.InvZeroID: rmon.InvZeroWhen(func(q, a *big.Int) *big.Int {
				if a.Sign() == 0 {
					return nil
				}
				return big.NewInt(0)
			}, fired)}
		}, func(_ []*big.Int, valid bool) bool { return !valid }},
		{"Zg", func(fired *int) rmon.Hints {
			return rmon.Hints{rmon.InvZeroID: rmon.InvZeroWhen(func(q, a *big.Int) *big.Int {
				if a.Sign() == 0 {
					return nil
				}
				g := new(big.Int).Add(new(big.Int).ModInverse(a, q), big.NewInt(1+seed%7))
				return g.Mod(g, q)
			}, fired)}
		}, func(_ []*big.Int, valid bool) bool { return !valid }},
		{"Zg0", func(fired *int) rmon.Hints {
			return rmon.Hints{rmon.InvZeroID: rmon.InvZeroWhen(func(q, a *big.Int) *big.Int {
				if a.Sign() != 0 {
					return nil
				}
				return big.NewInt(12345 + seed)
			}, fired)}
		}, func(indices []*big.Int, valid bool) bool { return len(indices) > 0 && indices[0].Bit(0) == 0 }},
	}
}

// judge runs one assignment under the honest table and the given dishonest
// ones and compares with the oracle's verdict.
func judge(run *evid.Run, sys *rmon.Sys, key, class string, valid bool, as frontend.Circuit, strategies []strategy, indices []*big.Int, sig string, sample map[string]any) {
	res := sys.Solve(as, nil)
	if res.EvalErr != "" {
		run.Violate(key+"/eval", "independent evaluator disagrees with the solver: "+res.EvalErr, sample)
	}
	run.Add("constraints_rechecked", res.Checked)
	if res.Accepted != valid {
		what := "circuit REJECTS an input the specification accepts"
		if res.Accepted {
			what = "circuit ACCEPTS an input the specification rejects"
		}
		run.Violate(key+"/H", fmt.Sprintf("%s (class %s, honest hints): %s", what, class, trim(res.Err)), sample)
	}
	if !res.Accepted {
		run.Hist("rejection_sites", class+" @ "+res.Site)
	}
	run.Case(class, true, sig, res.Accepted, sample)
	for _, st := range strategies {
		if st.applies != nil && !st.applies(indices, valid) {
			continue
		}
		fired := 0
		r2 := sys.Solve(as, st.hints(&fired))
		if fired == 0 {
			continue // strategy not applicable to this input
		}
		run.Add("dishonest_solves", 1)
		if r2.EvalErr != "" {
			run.Violate(key+"/"+st.name+"/eval", "independent evaluator disagrees with the solver: "+r2.EvalErr, sample)
		}
		if r2.Accepted && !valid {
			run.Violate(key+"/"+st.name, fmt.Sprintf("circuit ACCEPTS an invalid input under dishonest hint strategy %s (class %s)", st.name, class), sample)
		}
		if !r2.Accepted {
			run.Hist("rejection_sites", class+" + "+st.name+" @ "+r2.Site)
		}
		run.Case(class+"+"+st.name, true, sig, r2.Accepted, nil)
	}
}
