package main

// Generic dishonest prover for gadgets whose prover-chosen values are not known in advance: every hint call the
// compiled system makes in an honest solve is discovered at run time (whatever hint function it is - gnark's own
// or one the code under test registers), and for every distinct call (hint, number of outputs, input values) the
// outputs are replaced by a fixed list of perturbations that keep the "obvious" constraints a careless
// optimisation would leave (booleanity of one digit, recomposition of a sum) satisfied. A perturbation is a
// function of the call's inputs only, so a solve under it is deterministic however the solver schedules its work.

import (
	"fmt"
	"math/big"
	"sort"
	"sync"

	"github.com/consensys/gnark/backend"
	"github.com/consensys/gnark/backend/hint"
	"github.com/consensys/gnark/frontend"
	"github.com/reilabs/gnark-lean-extractor/v2/abstractor"

	"worldcoin/gnark-mbu/prover/keccak"
	"worldcoin/gnark-mbu/prover/poseidon"

	"verifmon/internal/cli"
	"verifmon/internal/evid"
	"verifmon/internal/rmon"
)

type forgeCall struct {
	id   hint.ID
	nOut int
	in   string // input values, comma separated
	seen int    // times the call occurred in the honest solve
}

func inKey(in []*big.Int) string {
	s := ""
	for i, v := range in {
		if i > 0 {
			s += ","
		}
		s += v.String()
	}
	return s
}

// discoverCalls runs one honest solve and returns the distinct hint calls made, skipping the hints in `skip`
// (the monitor's own probe).
func discoverCalls(sys *rmon.Sys, as frontend.Circuit, skip map[hint.ID]bool) ([]forgeCall, rmon.Result) {
	var mu sync.Mutex
	seen := map[string]*forgeCall{}
	opt := rmon.WrapAll(func(id hint.ID, honest hint.Function) hint.Function {
		if skip[id] {
			return honest
		}
		return func(q *big.Int, in []*big.Int, out []*big.Int) error {
			k := fmt.Sprintf("%d|%d|%s", id, len(out), inKey(in))
			mu.Lock()
			if c := seen[k]; c != nil {
				c.seen++
			} else {
				seen[k] = &forgeCall{id: id, nOut: len(out), in: inKey(in), seen: 1}
			}
			mu.Unlock()
			return honest(q, in, out)
		}
	})
	res := sys.SolveWith(as, opt)
	var calls []forgeCall
	for _, c := range seen {
		calls = append(calls, *c)
	}
	sort.Slice(calls, func(i, j int) bool {
		if calls[i].seen != calls[j].seen {
			return calls[i].seen > calls[j].seen
		}
		return calls[i].in < calls[j].in
	})
	return calls, res
}

type perturbation struct {
	name string
	min  int // minimum number of outputs
	fn   func(q *big.Int, out []*big.Int)
}

func half(q *big.Int) *big.Int { // 1/2 mod q
	return new(big.Int).ModInverse(big.NewInt(2), q)
}

func addMod(x, d, q *big.Int) { x.Add(x, d).Mod(x, q) }

var perturbations = []perturbation{
	{"out0+1/2", 1, func(q *big.Int, o []*big.Int) { addMod(o[0], half(q), q) }},
	{"out0-1/2", 1, func(q *big.Int, o []*big.Int) { addMod(o[0], new(big.Int).Neg(half(q)), q) }},
	{"out0+1", 1, func(q *big.Int, o []*big.Int) { addMod(o[0], big.NewInt(1), q) }},
	{"out0-1", 1, func(q *big.Int, o []*big.Int) { addMod(o[0], big.NewInt(-1), q) }},
	{"out0=0", 1, func(q *big.Int, o []*big.Int) { o[0].SetInt64(0) }},
	// digit 0 flipped between 0 and 1, digit 1 absorbs the difference: the recomposition sum(2^i d_i) is unchanged
	{"flip-digit0-carry-digit1", 2, func(q *big.Int, o []*big.Int) {
		old := new(big.Int).Set(o[0])
		o[0].Sub(big.NewInt(1), o[0]).Mod(o[0], q)
		d := new(big.Int).Sub(old, o[0])
		d.Mul(d, half(q))
		addMod(o[1], d, q)
	}},
	// the same one position up
	{"flip-digit1-carry-digit2", 3, func(q *big.Int, o []*big.Int) {
		old := new(big.Int).Set(o[1])
		o[1].Sub(big.NewInt(1), o[1]).Mod(o[1], q)
		d := new(big.Int).Sub(old, o[1])
		d.Mul(d, half(q))
		addMod(o[2], d, q)
	}},
	// last digit flipped, digit 0 absorbs the difference
	{"flip-last-carry-digit0", 2, func(q *big.Int, o []*big.Int) {
		n := len(o) - 1
		old := new(big.Int).Set(o[n])
		o[n].Sub(big.NewInt(1), o[n]).Mod(o[n], q)
		d := new(big.Int).Sub(old, o[n])
		d.Lsh(d, uint(n))
		addMod(o[0], d, q)
	}},
}

// forgeOption applies p to every call equal to c, honest everywhere else; *fired counts the forged calls.
func forgeOption(c forgeCall, p perturbation, fired *int64, skip map[hint.ID]bool) backend.ProverOption {
	var mu sync.Mutex
	return rmon.WrapAll(func(id hint.ID, honest hint.Function) hint.Function {
		if skip[id] || id != c.id {
			return honest
		}
		return func(q *big.Int, in []*big.Int, out []*big.Int) error {
			if err := honest(q, in, out); err != nil {
				return err
			}
			if len(out) == c.nOut && inKey(in) == c.in {
				p.fn(q, out)
				mu.Lock()
				*fired++
				mu.Unlock()
			}
			return nil
		}
	})
}

// ---- probe: lets the monitor read the gadget's output wires of a solve it did not constrain ----

var (
	probeMu  sync.Mutex
	probed   = map[int64][]*big.Int{}
	probeTag int64
)

func probeHint(_ *big.Int, in []*big.Int, out []*big.Int) error {
	vals := make([]*big.Int, len(in)-1)
	for i, v := range in[1:] {
		vals[i] = new(big.Int).Set(v)
	}
	probeMu.Lock()
	probed[in[0].Int64()] = vals
	probeMu.Unlock()
	out[0].Set(in[0])
	return nil
}

func init() { hint.Register(probeHint) }

var probeSkip = map[hint.ID]bool{hint.UUID(probeHint): true}

func nextTag() int64 {
	probeMu.Lock()
	defer probeMu.Unlock()
	probeTag++
	return probeTag
}

func takeProbe(tag int64) []*big.Int {
	probeMu.Lock()
	defer probeMu.Unlock()
	v := probed[tag]
	delete(probed, tag)
	return v
}

// probe passes the gadget outputs to the monitor and ties the hint's result to Tag so that the solver runs it.
func probe(api frontend.API, tag frontend.Variable, outs []frontend.Variable) error {
	res, err := api.Compiler().NewHint(probeHint, 1, append([]frontend.Variable{tag}, outs...)...)
	if err != nil {
		return err
	}
	api.AssertIsEqual(res[0], tag)
	return nil
}

type KeccakProbeCircuit struct {
	In   []frontend.Variable
	Tag  frontend.Variable
	SHA3 bool
}

func (c *KeccakProbeCircuit) Define(api frontend.API) error {
	var h []frontend.Variable
	if c.SHA3 {
		h = keccak.NewSHA3_256(api, len(c.In), c.In...)
	} else {
		h = keccak.NewKeccak256(api, len(c.In), c.In...)
	}
	return probe(api, c.Tag, h)
}

type P2ProbeCircuit struct {
	A, B, Tag frontend.Variable
}

func (c *P2ProbeCircuit) Define(api frontend.API) error {
	return probe(api, c.Tag, []frontend.Variable{abstractor.Call(api, poseidon.Poseidon2{In1: c.A, In2: c.B}), abstractor.Call(api, poseidon.Poseidon1{In: c.B})})
}

func sameVals(a, b []*big.Int) bool {
	if len(a) != len(b) {
		return false
	}
	for i := range a {
		if a[i].Cmp(b[i]) != 0 {
			return false
		}
	}
	return true
}

// forgeStage decides "no prover choice makes the gadget output anything but the reference" for one input of one
// compiled probe system: honest solve (outputs must equal `want`), discovery of every hint call, then every
// applicable perturbation of up to maxCalls distinct calls. A forged solve that is accepted with outputs != want
// is confirmed on the ordinary asserting harness (confirm) before it is reported.
func forgeStage(run *evid.Run, key, what string, sys *rmon.Sys, mk func(tag int64) frontend.Circuit, want []*big.Int,
	confirm func(outs []*big.Int, opt backend.ProverOption) bool, maxCalls int) {
	tag := nextTag()
	calls, res := discoverCalls(sys, mk(tag), probeSkip)
	got := takeProbe(tag)
	if !res.Accepted {
		run.Violate(key+"/honest", fmt.Sprintf("%s: probe harness rejected under honest hints: %v", what, trim(res.Err)), nil)
		return
	}
	if !sameVals(got, want) {
		run.Violate(key+"/honest", fmt.Sprintf("%s: gadget output under honest hints differs from the reference", what), map[string]any{"got": fmt.Sprint(got), "want": fmt.Sprint(want)})
		return
	}
	a := sys.Audit
	run.Add("forge_probe_systems", 1)
	run.Add("forge_hint_calls_discovered", len(calls))
	run.Add("forge_audit_exceptions", a.Exceptions)
	// the probe itself is one hint call with one output wire
	if len(calls) == 0 {
		run.Case("forge/no-prover-chosen-values", true, key, true, map[string]any{"what": what, "constraints": a.Constraints, "hint_wires_besides_probe": a.HintWires - 1, "wires_not_defined_by_a_constraint": a.Exceptions})
		if a.Exceptions != 0 || a.HintWires != 1 {
			fmt.Printf("AUDIT property=%s %s: %d wires not O-defined, %d hint wires but no hint call observed: adversarial coverage incomplete\n", run.Prop, key, a.Exceptions, a.HintWires-1)
		}
		return
	}
	if len(calls) > maxCalls {
		calls = calls[:maxCalls]
	}
	type job struct {
		c forgeCall
		p perturbation
	}
	var jobs []job
	for _, c := range calls {
		for _, p := range perturbations {
			if c.nOut >= p.min {
				jobs = append(jobs, job{c, p})
			}
		}
	}
	cli.ForEach(len(jobs), 4, func(i int) {
		j := jobs[i]
		jkey := fmt.Sprintf("%s/hint=%d/in=%s/%s", key, j.c.id, j.c.in, j.p.name)
		var fired int64
		t := nextTag()
		r := sys.SolveWith(mk(t), forgeOption(j.c, j.p, &fired, probeSkip))
		outs := takeProbe(t)
		sample := map[string]any{"what": what, "hint": fmt.Sprint(j.c.id), "hint_inputs": j.c.in, "outputs": j.c.nOut, "perturbation": j.p.name, "calls_forged": fired, "site": r.Site}
		bad := false
		if r.Accepted && fired > 0 && !sameVals(outs, want) {
			var f2 int64
			if confirm(outs, forgeOption(j.c, j.p, &f2, probeSkip)) {
				bad = true
				run.Violate(jkey, fmt.Sprintf("%s: the compiled gadget is SATISFIABLE with an output that is not the reference value when the prover answers hint %d on input (%s) with %s (%d calls forged)", what, j.c.id, j.c.in, j.p.name, fired),
					map[string]any{"accepted_output": fmt.Sprint(outs), "reference": fmt.Sprint(want)})
			} else {
				run.Inconclusive(jkey + ": probe harness accepted a forged output that the asserting harness rejects")
			}
		}
		run.Add("forge_solves", 1)
		run.Case("forge/"+j.p.name, true, jkey, r.Accepted, sample)
		_ = bad
	})
}
