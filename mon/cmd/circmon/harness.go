package main

import (
	"math/big"

	"github.com/consensys/gnark/frontend"
	"github.com/reilabs/gnark-lean-extractor/v2/abstractor"

	"worldcoin/gnark-mbu/prover"
	"worldcoin/gnark-mbu/prover/keccak"
	"worldcoin/gnark-mbu/prover/poseidon"
)

// ---- harness circuits: a few lines around the repository's exported gadgets ----

type P1Circuit struct {
	In  frontend.Variable
	Out frontend.Variable
}

func (c *P1Circuit) Define(api frontend.API) error {
	api.AssertIsEqual(abstractor.Call(api, poseidon.Poseidon1{In: c.In}), c.Out)
	return nil
}

type P2Circuit struct {
	A, B frontend.Variable
	Out  frontend.Variable
}

func (c *P2Circuit) Define(api frontend.API) error {
	api.AssertIsEqual(abstractor.Call(api, poseidon.Poseidon2{In1: c.A, In2: c.B}), c.Out)
	return nil
}

// PMultiCircuit calls the gadgets repeatedly on shared operands (exposes in-place aliasing).
type PMultiCircuit struct {
	A, B               frontend.Variable
	H1, H2, H3, H4, H5 frontend.Variable
}

func (c *PMultiCircuit) Define(api frontend.API) error {
	h1 := abstractor.Call(api, poseidon.Poseidon2{In1: c.A, In2: c.B})
	h2 := abstractor.Call(api, poseidon.Poseidon2{In1: c.A, In2: c.B})
	h3 := abstractor.Call(api, poseidon.Poseidon2{In1: h1, In2: c.A})
	h4 := abstractor.Call(api, poseidon.Poseidon1{In: c.A})
	h5 := abstractor.Call(api, poseidon.Poseidon2{In1: c.B, In2: c.A})
	api.AssertIsEqual(h1, c.H1)
	api.AssertIsEqual(h2, c.H2)
	api.AssertIsEqual(h3, c.H3)
	api.AssertIsEqual(h4, c.H4)
	api.AssertIsEqual(h5, c.H5)
	return nil
}

// PDerivedCircuit passes DERIVED expressions (not bare inputs) to the gadgets and reuses them afterwards.
type PDerivedCircuit struct {
	A, B           frontend.Variable
	H1, H2, H3, H4 frontend.Variable
}

func (c *PDerivedCircuit) Define(api frontend.API) error {
	v := api.Add(c.A, 1)
	w := api.Mul(c.A, c.B)
	u := api.Add(api.Mul(c.B, 3), c.A, 7)
	h1 := abstractor.Call(api, poseidon.Poseidon2{In1: v, In2: v})
	h2 := abstractor.Call(api, poseidon.Poseidon1{In: v})
	h3 := abstractor.Call(api, poseidon.Poseidon2{In1: v, In2: w})
	h4 := abstractor.Call(api, poseidon.Poseidon2{In1: u, In2: v})
	api.AssertIsEqual(h1, c.H1)
	api.AssertIsEqual(h2, c.H2)
	api.AssertIsEqual(h3, c.H3)
	api.AssertIsEqual(h4, c.H4)
	return nil
}

// PConstCircuit feeds COMPILE-TIME CONSTANTS to the gadgets (as a circuit computing empty-subtree roots from the
// literal empty leaf would). K1..K3 are circuit parameters, not variables.
type PConstCircuit struct {
	A              frontend.Variable
	H1, H2, H3, H4 frontend.Variable
	K1, K2, K3     *big.Int
}

func (c *PConstCircuit) Define(api frontend.API) error {
	h1 := abstractor.Call(api, poseidon.Poseidon2{In1: c.A, In2: c.K1})
	h2 := abstractor.Call(api, poseidon.Poseidon2{In1: c.K2, In2: c.A})
	h3 := abstractor.Call(api, poseidon.Poseidon1{In: c.K3})
	h4 := abstractor.Call(api, poseidon.Poseidon2{In1: c.K1, In2: c.K2})
	api.AssertIsEqual(h1, c.H1)
	api.AssertIsEqual(h2, c.H2)
	api.AssertIsEqual(h3, c.H3)
	api.AssertIsEqual(h4, c.H4)
	return nil
}

type KeccakCircuit struct {
	In   []frontend.Variable
	Out  [256]frontend.Variable
	SHA3 bool
}

func (c *KeccakCircuit) Define(api frontend.API) error {
	var h []frontend.Variable
	if c.SHA3 {
		h = keccak.NewSHA3_256(api, len(c.In), c.In...)
	} else {
		h = keccak.NewKeccak256(api, len(c.In), c.In...)
	}
	for i := range c.Out {
		api.AssertIsEqual(h[i], c.Out[i])
	}
	return nil
}

// PackedKeccakCircuit hashes consecutive sub-slices of ONE input buffer, in order, then the whole buffer:
// a gadget that writes into its caller's slice corrupts the later messages.
type PackedKeccakCircuit struct {
	In    []frontend.Variable
	Outs  [][256]frontend.Variable // one digest per part, then the digest of the whole buffer
	Parts []int                    // part lengths in bits
	SHA3  bool
}

func (c *PackedKeccakCircuit) Define(api frontend.API) error {
	hash := func(data []frontend.Variable) []frontend.Variable {
		if c.SHA3 {
			return keccak.NewSHA3_256(api, len(data), data...)
		}
		return keccak.NewKeccak256(api, len(data), data...)
	}
	off := 0
	for i, n := range c.Parts {
		h := hash(c.In[off : off+n]) // cap(c.In[off:off+n]) > len: room behind the message
		for j := range h {
			api.AssertIsEqual(h[j], c.Outs[i][j])
		}
		off += n
	}
	h := hash(c.In)
	for j := range h {
		api.AssertIsEqual(h[j], c.Outs[len(c.Parts)][j])
	}
	return nil
}

type InsGadgetCircuit struct {
	Start, Pre, Post frontend.Variable
	Ids              []frontend.Variable
	Proofs           [][]frontend.Variable
	Depth, Batch     int
}

func (c *InsGadgetCircuit) Define(api frontend.API) error {
	root := abstractor.Call(api, prover.InsertionProof{StartIndex: c.Start, PreRoot: c.Pre, IdComms: c.Ids,
		MerkleProofs: c.Proofs, BatchSize: c.Batch, Depth: c.Depth})
	api.AssertIsEqual(root, c.Post)
	return nil
}

type DelGadgetCircuit struct {
	Pre, Post    frontend.Variable
	Indices      []frontend.Variable
	Items        []frontend.Variable
	Proofs       [][]frontend.Variable
	Depth, Batch int
}

func (c *DelGadgetCircuit) Define(api frontend.API) error {
	root := abstractor.Call(api, prover.DeletionProof{DeletionIndices: c.Indices, PreRoot: c.Pre, IdComms: c.Items,
		MerkleProofs: c.Proofs, BatchSize: c.Batch, Depth: c.Depth})
	api.AssertIsEqual(root, c.Post)
	return nil
}

type ReducedCheckCircuit struct {
	Bits []frontend.Variable
}

func (c *ReducedCheckCircuit) Define(api frontend.API) error {
	abstractor.CallVoid(api, prover.ReducedModRCheck{Input: c.Bits})
	return nil
}

type ToReducedCircuit struct {
	V    frontend.Variable
	Out  []frontend.Variable
	Size int
}

func (c *ToReducedCircuit) Define(api frontend.API) error {
	bits := abstractor.Call1(api, prover.ToReducedBigEndian{Variable: c.V, Size: c.Size})
	for i := range c.Out {
		api.AssertIsEqual(bits[i], c.Out[i])
	}
	return nil
}

type FromBinaryCircuit struct {
	Bits []frontend.Variable
	Out  frontend.Variable
}

func (c *FromBinaryCircuit) Define(api frontend.API) error {
	api.AssertIsEqual(abstractor.Call(api, prover.FromBinaryBigEndian{Variable: c.Bits}), c.Out)
	return nil
}

func vars(n int) []frontend.Variable { return make([]frontend.Variable, n) }

func varss(n, m int) [][]frontend.Variable {
	out := make([][]frontend.Variable, n)
	for i := range out {
		out[i] = make([]frontend.Variable, m)
	}
	return out
}

func assign(vs []*big.Int) []frontend.Variable {
	out := make([]frontend.Variable, len(vs))
	for i, v := range vs {
		out[i] = v
	}
	return out
}

func assignss(vs [][]*big.Int) [][]frontend.Variable {
	out := make([][]frontend.Variable, len(vs))
	for i, v := range vs {
		out[i] = assign(v)
	}
	return out
}
