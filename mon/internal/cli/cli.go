// Package cli is the shared command-line scaffolding of the monitor binaries.
package cli

import (
	"encoding/json"
	"flag"
	"fmt"
	"os"
	"runtime"
	"sync"

	"verifmon/internal/evid"
)

type Opts struct {
	Prop, Tier, Out, Scratch, Repo, Replay string
	Seed                                   int64
}

// Parse reads the common flags and creates the evidence accumulator.
func Parse(levels map[string]string) (*Opts, *evid.Run) {
	o := &Opts{}
	flag.StringVar(&o.Prop, "prop", "", "property id")
	flag.StringVar(&o.Tier, "tier", "quick", "quick|thorough")
	flag.Int64Var(&o.Seed, "seed", 1, "VERIF_SEED")
	flag.StringVar(&o.Out, "out", "/verif", "verif root (evidence/, replays/, known_findings.json)")
	flag.StringVar(&o.Scratch, "scratch", "", "scratch directory (removed by the caller)")
	flag.StringVar(&o.Repo, "repo", "/repo", "repository under test")
	flag.StringVar(&o.Replay, "replay", "", "replay file: re-execute only the stored case")
	onlyFlag := flag.String("only", "", "debug: run only the cases whose key has this prefix")
	flag.Parse()
	level, ok := levels[o.Prop]
	if !ok {
		fmt.Fprintf(os.Stderr, "unknown property %q for this monitor\n", o.Prop)
		os.Exit(3)
	}
	if o.Scratch == "" {
		d, err := os.MkdirTemp("", "verifmon-")
		if err != nil {
			panic(err)
		}
		o.Scratch = d
	}
	only := ""
	if o.Replay != "" {
		b, err := os.ReadFile(o.Replay)
		if err != nil {
			fmt.Fprintln(os.Stderr, err)
			os.Exit(3)
		}
		var rf struct {
			Tier string `json:"tier"`
			Seed int64  `json:"seed"`
			Key  string `json:"key"`
		}
		if err := json.Unmarshal(b, &rf); err != nil {
			fmt.Fprintln(os.Stderr, err)
			os.Exit(3)
		}
		o.Tier, o.Seed, only = rf.Tier, rf.Seed, rf.Key
	}
	run := evid.New(o.Prop, o.Tier, level, o.Seed, o.Out)
	if *onlyFlag != "" {
		only = *onlyFlag
	}
	run.Only = only
	return o, run
}

func (o *Opts) Thorough() bool { return o.Tier == "thorough" }

// Pick returns q for the quick tier and t for thorough.
func (o *Opts) Pick(q, t int) int {
	if o.Thorough() {
		return t
	}
	return q
}

// ForEach runs fn(i) for i in [0,n) on up to `workers` goroutines (0 = NumCPU).
func ForEach(n, workers int, fn func(i int)) {
	if workers <= 0 {
		workers = runtime.NumCPU()
	}
	if workers > n {
		workers = n
	}
	var wg sync.WaitGroup
	ch := make(chan int)
	for w := 0; w < workers; w++ {
		wg.Add(1)
		go func() {
			defer wg.Done()
			for i := range ch {
				fn(i)
			}
		}()
	}
	for i := 0; i < n; i++ {
		ch <- i
	}
	close(ch)
	wg.Wait()
}
