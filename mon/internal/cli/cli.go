// Package cli is the shared command-line scaffolding of the monitor binaries.
package cli

import (
	"encoding/json"
	"flag"
	"fmt"
	"os"
	"runtime"
	"runtime/debug"
	"strings"
	"sync"

	"verifmon/internal/evid"
)

type Opts struct {
	Prop, Tier, Out, Scratch, Repo, Replay string
	Seed                                   int64
}

// Parse reads the common flags and creates the evidence accumulator.
func Parse(levels map[string]string) (*Opts, *evid.Run) {
	o := &Opts{}
	flag.StringVar(&o.Prop, "prop", "", "property id")
	flag.StringVar(&o.Tier, "tier", "quick", "quick|thorough")
	flag.Int64Var(&o.Seed, "seed", 1, "VERIF_SEED")
	flag.StringVar(&o.Out, "out", "/verif", "verif root (evidence/, replays/, known_findings.json)")
	flag.StringVar(&o.Scratch, "scratch", "", "scratch directory (removed by the caller)")
	flag.StringVar(&o.Repo, "repo", "/repo", "repository under test")
	flag.StringVar(&o.Replay, "replay", "", "replay file: re-execute only the stored case")
	onlyFlag := flag.String("only", "", "debug: run only the cases whose key has this prefix")
	flag.Parse()
	level, ok := levels[o.Prop]
	if !ok {
		fmt.Fprintf(os.Stderr, "unknown property %q for this monitor\n", o.Prop)
		os.Exit(3)
	}
	if o.Scratch == "" {
		d, err := os.MkdirTemp("", "verifmon-")
		if err != nil {
			panic(err)
		}
		o.Scratch = d
	}
	only := ""
	if o.Replay != "" {
		b, err := os.ReadFile(o.Replay)
		if err != nil {
			fmt.Fprintln(os.Stderr, err)
			os.Exit(3)
		}
		var rf struct {
			Tier string `json:"tier"`
			Seed int64  `json:"seed"`
			Key  string `json:"key"`
		}
		if err := json.Unmarshal(b, &rf); err != nil {
			fmt.Fprintln(os.Stderr, err)
			os.Exit(3)
		}
		o.Tier, o.Seed, only = rf.Tier, rf.Seed, rf.Key
	}
	run := evid.New(o.Prop, o.Tier, level, o.Seed, o.Out)
	if *onlyFlag != "" {
		only = *onlyFlag
	}
	run.Only = only
	current = run
	return o, run
}

var current *evid.Run

// Guard runs fn and turns a panic that ORIGINATES in the repository under observation (first project frame below the
// panic is a worldcoin/gnark-mbu function) into a violation of the property being decided: a library call that panics
// did not do what the property says. A panic that originates in the monitor itself is a monitor bug and is re-raised.
// The replay key is empty: the replay re-runs the whole tier with the same seed.
func Guard(where string, fn func()) {
	defer func() {
		p := recover()
		if p == nil {
			return
		}
		stack := string(debug.Stack())
		origin := ""
		after := stack
		if i := strings.Index(stack, "\npanic("); i >= 0 {
			after = stack[i+1:]
		}
		for _, line := range strings.Split(after, "\n") {
			if strings.HasPrefix(line, "\t") || strings.HasPrefix(line, "panic(") || strings.HasPrefix(line, "runtime.") {
				continue
			}
			if strings.HasPrefix(line, "worldcoin/gnark-mbu") || strings.HasPrefix(line, "verifmon/") || strings.HasPrefix(line, "main.") {
				origin = line
				break
			}
		}
		if current == nil || !strings.HasPrefix(origin, "worldcoin/gnark-mbu") {
			panic(fmt.Sprintf("%v\n%s", p, stack))
		}
		if len(stack) > 3000 {
			stack = stack[:3000]
		}
		current.Violate("", fmt.Sprintf("the code under observation PANICKED in %s (%s): %v", origin, where, p), map[string]any{"stack": stack})
	}()
	fn()
}

func (o *Opts) Thorough() bool { return o.Tier == "thorough" }

// Pick returns q for the quick tier and t for thorough.
func (o *Opts) Pick(q, t int) int {
	if o.Thorough() {
		return t
	}
	return q
}

// ForEach runs fn(i) for i in [0,n) on up to `workers` goroutines (0 = NumCPU).
func ForEach(n, workers int, fn func(i int)) {
	if workers <= 0 {
		workers = runtime.NumCPU()
	}
	if workers > n {
		workers = n
	}
	var wg sync.WaitGroup
	ch := make(chan int)
	for w := 0; w < workers; w++ {
		wg.Add(1)
		go func() {
			defer wg.Done()
			for i := range ch {
				i := i
				Guard(fmt.Sprintf("parallel case %d", i), func() { fn(i) })
			}
		}()
	}
	for i := 0; i < n; i++ {
		ch <- i
	}
	close(ch)
	wg.Wait()
}
