package cli

import (
	"os"
	"testing"

	"worldcoin/gnark-mbu/prover"

	"verifmon/internal/evid"
)

func TestGuardRepoPanic(t *testing.T) {
	dir := t.TempDir()
	os.WriteFile(dir+"/known_findings.json", []byte(`{"findings":[]}`), 0o644)
	current = evid.New("C16", "quick", "exploration", 1, dir)
	// a nil receiver makes repo code panic
	Guard("test", func() { var p *prover.InsertionParameters; _ = p.ValidateShape(3, 2) })
	if current.Violations() != 1 {
		t.Fatalf("repo panic not converted: %d", current.Violations())
	}
	defer func() {
		if recover() == nil {
			t.Fatal("monitor panic swallowed")
		}
	}()
	Guard("test", func() { var m map[string]int; m["x"] = 1 })
}
