// Package ref holds the independent reference oracles. It never imports the
// code under test (worldcoin/gnark-mbu/...).
package ref
