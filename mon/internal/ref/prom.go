package ref

import (
	"bufio"
	"bytes"
	"fmt"
	"sort"
	"strconv"
	"strings"
)

// Sample is one line of a Prometheus text exposition.
type Sample struct {
	Name   string
	Labels map[string]string
	Value  float64
}

// ParseProm parses the Prometheus text format (enough of it for counters and gauges).
func ParseProm(text []byte) ([]Sample, error) {
	var out []Sample
	sc := bufio.NewScanner(bytes.NewReader(text))
	sc.Buffer(make([]byte, 1<<20), 1<<24)
	for sc.Scan() {
		line := strings.TrimSpace(sc.Text())
		if line == "" || line[0] == '#' {
			continue
		}
		s := Sample{Labels: map[string]string{}}
		rest := line
		if i := strings.IndexByte(line, '{'); i >= 0 {
			j := strings.LastIndexByte(line, '}')
			if j < i {
				return nil, fmt.Errorf("bad line %q", line)
			}
			s.Name = line[:i]
			for _, kv := range splitLabels(line[i+1 : j]) {
				eq := strings.IndexByte(kv, '=')
				if eq < 0 {
					continue
				}
				v, err := strconv.Unquote(kv[eq+1:])
				if err != nil {
					v = strings.Trim(kv[eq+1:], `"`)
				}
				s.Labels[kv[:eq]] = v
			}
			rest = strings.TrimSpace(line[j+1:])
		} else {
			f := strings.Fields(line)
			if len(f) < 2 {
				return nil, fmt.Errorf("bad line %q", line)
			}
			s.Name = f[0]
			rest = f[1]
		}
		f := strings.Fields(rest)
		if len(f) == 0 {
			return nil, fmt.Errorf("bad line %q", line)
		}
		v, err := strconv.ParseFloat(f[0], 64)
		if err != nil {
			return nil, fmt.Errorf("bad value in %q", line)
		}
		s.Value = v
		out = append(out, s)
	}
	return out, nil
}

func splitLabels(s string) []string {
	var out []string
	inq, start := false, 0
	for i := 0; i < len(s); i++ {
		switch s[i] {
		case '\\':
			i++
		case '"':
			inq = !inq
		case ',':
			if !inq {
				out = append(out, s[start:i])
				start = i + 1
			}
		}
	}
	if start < len(s) {
		out = append(out, s[start:])
	}
	return out
}

// RequestTotals extracts http_requests_total per "method/code" for an endpoint
// pattern, and the in-flight gauge (-1 when absent).
func RequestTotals(samples []Sample, pattern string) (map[string]int, int, []string) {
	totals := map[string]int{}
	gauge := -1
	var other []string
	for _, s := range samples {
		switch s.Name {
		case "http_requests_total":
			if s.Labels["endpoint_pattern"] != pattern {
				other = append(other, fmt.Sprintf("http_requests_total with endpoint_pattern=%q", s.Labels["endpoint_pattern"]))
				continue
			}
			totals[s.Labels["method"]+"/"+s.Labels["code"]] += int(s.Value)
		case "http_requests_in_flight":
			if s.Labels["endpoint_pattern"] == pattern {
				gauge = int(s.Value)
			}
		}
	}
	sort.Strings(other)
	return totals, gauge, other
}
