package ref

import (
	"encoding/binary"
	"math/big"

	iden3 "github.com/iden3/go-iden3-crypto/poseidon"
	"golang.org/x/crypto/sha3"
)

// R is the BN254 scalar field order.
var R, _ = new(big.Int).SetString("21888242871839275222246405745257275088548364400416034343698204186575808495617", 10)

// Hasher is a two-to-one hash over a prime field. The reference for BN254 is
// iden3's Poseidon; tiny-field runs use a measured table of the gadget itself
// (the property is stated relative to the hash).
type Hasher func(a, b *big.Int) *big.Int

// H2 is Poseidon(a,b) with circomlib/iden3 parameters over BN254.
func H2(a, b *big.Int) *big.Int {
	v, err := iden3.Hash([]*big.Int{a, b})
	if err != nil {
		panic(err)
	}
	return v
}

// H1 is Poseidon(a).
func H1(a *big.Int) *big.Int {
	v, err := iden3.Hash([]*big.Int{a})
	if err != nil {
		panic(err)
	}
	return v
}

// Tree is a sparse complete binary Merkle tree of the given depth. Leaves that
// were never written hold 0.
type Tree struct {
	Depth int
	H     Hasher
	empty []*big.Int            // empty[l] = root of an empty subtree of height l
	nodes []map[uint64]*big.Int // nodes[l][i], l = 0 leaves
}

func NewTree(depth int, h Hasher) *Tree {
	t := &Tree{Depth: depth, H: h}
	t.empty = make([]*big.Int, depth+1)
	t.empty[0] = big.NewInt(0)
	for l := 1; l <= depth; l++ {
		t.empty[l] = h(t.empty[l-1], t.empty[l-1])
	}
	t.nodes = make([]map[uint64]*big.Int, depth+1)
	for l := range t.nodes {
		t.nodes[l] = map[uint64]*big.Int{}
	}
	return t
}

func (t *Tree) Clone() *Tree {
	c := &Tree{Depth: t.Depth, H: t.H, empty: t.empty}
	c.nodes = make([]map[uint64]*big.Int, len(t.nodes))
	for l := range t.nodes {
		c.nodes[l] = make(map[uint64]*big.Int, len(t.nodes[l]))
		for k, v := range t.nodes[l] {
			c.nodes[l][k] = v
		}
	}
	return c
}

func (t *Tree) node(l int, i uint64) *big.Int {
	if v, ok := t.nodes[l][i]; ok {
		return v
	}
	return t.empty[l]
}

func (t *Tree) Get(i uint64) *big.Int { return new(big.Int).Set(t.node(0, i)) }

func (t *Tree) Set(i uint64, v *big.Int) {
	t.nodes[0][i] = new(big.Int).Set(v)
	for l := 1; l <= t.Depth; l++ {
		i >>= 1
		t.nodes[l][i] = t.H(t.node(l-1, 2*i), t.node(l-1, 2*i+1))
	}
}

func (t *Tree) Root() *big.Int { return new(big.Int).Set(t.node(t.Depth, 0)) }

// Path returns the siblings of leaf i, leaf level first.
func (t *Tree) Path(i uint64) []*big.Int {
	out := make([]*big.Int, t.Depth)
	for l := 0; l < t.Depth; l++ {
		out[l] = new(big.Int).Set(t.node(l, i^1))
		i >>= 1
	}
	return out
}

// Leaves returns the indices of all leaves ever written (including those set
// back to zero).
func (t *Tree) Leaves() []uint64 {
	out := make([]uint64, 0, len(t.nodes[0]))
	for k := range t.nodes[0] {
		out = append(out, k)
	}
	return out
}

// Fold recomputes a root from a leaf, the low len(siblings) bits of index
// (bit l selects the side at level l: 0 = the running hash is the left child)
// and the siblings, leaf level first.
func Fold(h Hasher, leaf *big.Int, index uint64, siblings []*big.Int) *big.Int {
	cur := leaf
	for l, s := range siblings {
		if (index>>uint(l))&1 == 0 {
			cur = h(cur, s)
		} else {
			cur = h(s, cur)
		}
	}
	return cur
}

func mod(v, m *big.Int) *big.Int { return new(big.Int).Mod(v, m) }

// ValidInsertion is the literal statement of C01 over integers. All values are
// taken as canonical representatives in [0, modulus); an index is in the tree
// iff that representative is < 2^depth (no wrap-around).
func ValidInsertion(h Hasher, modulus *big.Int, depth int, start, pre, post *big.Int, ids []*big.Int, paths [][]*big.Int) bool {
	running := mod(pre, modulus)
	limit := new(big.Int).Lsh(big.NewInt(1), uint(depth))
	s := mod(start, modulus)
	for i := range ids {
		idx := new(big.Int).Add(s, big.NewInt(int64(i)))
		if idx.Cmp(limit) >= 0 {
			return false
		}
		if len(paths[i]) != depth {
			return false
		}
		sib := make([]*big.Int, depth)
		for j := range sib {
			sib[j] = mod(paths[i][j], modulus)
		}
		if Fold(h, big.NewInt(0), idx.Uint64(), sib).Cmp(running) != 0 {
			return false
		}
		running = Fold(h, mod(ids[i], modulus), idx.Uint64(), sib)
	}
	return running.Cmp(mod(post, modulus)) == 0
}

// ValidDeletion is the literal statement of C02.
func ValidDeletion(h Hasher, modulus *big.Int, depth int, indices []*big.Int, pre, post *big.Int, items []*big.Int, paths [][]*big.Int) bool {
	running := mod(pre, modulus)
	limit := new(big.Int).Lsh(big.NewInt(1), uint(depth))
	limit2 := new(big.Int).Lsh(big.NewInt(1), uint(depth+1))
	for i := range indices {
		idx := mod(indices[i], modulus)
		if idx.Cmp(limit2) >= 0 {
			return false
		}
		if idx.Cmp(limit) >= 0 {
			continue // padding: no-op whatever the other fields contain
		}
		if len(paths[i]) != depth {
			return false
		}
		sib := make([]*big.Int, depth)
		for j := range sib {
			sib[j] = mod(paths[i][j], modulus)
		}
		if Fold(h, mod(items[i], modulus), idx.Uint64(), sib).Cmp(running) != 0 {
			return false
		}
		running = Fold(h, big.NewInt(0), idx.Uint64(), sib)
	}
	return running.Cmp(mod(post, modulus)) == 0
}

// Keccak256 is the Ethereum (pre-FIPS padding) Keccak-256.
func Keccak256(data []byte) []byte {
	h := sha3.NewLegacyKeccak256()
	h.Write(data)
	return h.Sum(nil)
}

// SHA3_256 is FIPS-202 SHA3-256.
func SHA3_256(data []byte) []byte {
	h := sha3.New256()
	h.Write(data)
	return h.Sum(nil)
}

func u256(v *big.Int) []byte { return v.FillBytes(make([]byte, 32)) }

// PackInsertion is the byte string the on-chain verifier hashes for an
// insertion batch: uint32 startIndex || uint256 preRoot || uint256 postRoot ||
// uint256 commitments..., all big-endian. Values must be < 2^256.
func PackInsertion(start uint32, pre, post *big.Int, ids []*big.Int) []byte {
	out := binary.BigEndian.AppendUint32(nil, start)
	out = append(out, u256(pre)...)
	out = append(out, u256(post)...)
	for _, id := range ids {
		out = append(out, u256(id)...)
	}
	return out
}

// PackDeletion: uint32 indices... || uint256 preRoot || uint256 postRoot.
func PackDeletion(indices []uint32, pre, post *big.Int) []byte {
	var out []byte
	for _, i := range indices {
		out = binary.BigEndian.AppendUint32(out, i)
	}
	out = append(out, u256(pre)...)
	out = append(out, u256(post)...)
	return out
}

// HashToField is Keccak-256 of data as a big-endian integer modulo R.
func HashToField(data []byte) *big.Int {
	return mod(new(big.Int).SetBytes(Keccak256(data)), R)
}

// HashRaw is Keccak-256 of data as a big-endian integer (not reduced).
func HashRaw(data []byte) *big.Int { return new(big.Int).SetBytes(Keccak256(data)) }
