package ref

import (
	"bytes"
	"encoding/json"
	"fmt"
	"math/big"
	"math/rand"
	"reflect"

	"github.com/consensys/gnark-crypto/ecc"
	"github.com/consensys/gnark-crypto/ecc/bn254"
	"github.com/consensys/gnark-crypto/ecc/bn254/fp"
	"github.com/consensys/gnark-crypto/ecc/bn254/fr"
	"github.com/consensys/gnark/backend/groth16"
)

// P is the BN254 base field order.
var P = fp.Modulus()

// Points of a Groth16 proof, read from gnark's (internal) concrete proof type by reflection.
type Points struct {
	A bn254.G1Affine
	B bn254.G2Affine
	C bn254.G1Affine
}

func GetPoints(p groth16.Proof) Points {
	v := reflect.ValueOf(p).Elem()
	return Points{
		A: v.FieldByName("Ar").Interface().(bn254.G1Affine),
		B: v.FieldByName("Bs").Interface().(bn254.G2Affine),
		C: v.FieldByName("Krs").Interface().(bn254.G1Affine),
	}
}

func fpInt(e *fp.Element) *big.Int { return e.BigInt(new(big.Int)) }

// Coords returns the eight affine coordinates in the order consumed by the EVM
// pairing precompile (EIP-197): A.x A.y B.x1 B.x0 B.y1 B.y0 C.x C.y, where a
// G2 coordinate is x0 + x1*i.
func (pt Points) Coords() [8]*big.Int {
	return [8]*big.Int{
		fpInt(&pt.A.X), fpInt(&pt.A.Y),
		fpInt(&pt.B.X.A1), fpInt(&pt.B.X.A0), fpInt(&pt.B.Y.A1), fpInt(&pt.B.Y.A0),
		fpInt(&pt.C.X), fpInt(&pt.C.Y),
	}
}

// PointsFromCoords is the inverse of Coords. Coordinates must be < P.
func PointsFromCoords(c [8]*big.Int) (Points, error) {
	var pt Points
	for i, v := range c {
		if v.Sign() < 0 || v.Cmp(P) >= 0 {
			return pt, fmt.Errorf("coordinate %d out of range", i)
		}
	}
	pt.A.X.SetBigInt(c[0])
	pt.A.Y.SetBigInt(c[1])
	pt.B.X.A1.SetBigInt(c[2])
	pt.B.X.A0.SetBigInt(c[3])
	pt.B.Y.A1.SetBigInt(c[4])
	pt.B.Y.A0.SetBigInt(c[5])
	pt.C.X.SetBigInt(c[6])
	pt.C.Y.SetBigInt(c[7])
	return pt, nil
}

// ToProof builds a gnark proof object holding these points (fields set by reflection).
func (pt Points) ToProof() groth16.Proof {
	p := groth16.NewProof(ecc.BN254)
	v := reflect.ValueOf(p).Elem()
	v.FieldByName("Ar").Set(reflect.ValueOf(pt.A))
	v.FieldByName("Bs").Set(reflect.ValueOf(pt.B))
	v.FieldByName("Krs").Set(reflect.ValueOf(pt.C))
	return p
}

func (pt Points) Equal(o Points) bool {
	return pt.A.Equal(&o.A) && pt.B.Equal(&o.B) && pt.C.Equal(&o.C)
}

// OnCurve reports whether all three points are on their curves and in the right subgroups.
func (pt Points) OnCurve() bool {
	return pt.A.IsOnCurve() && pt.A.IsInSubGroup() && pt.B.IsOnCurve() && pt.B.IsInSubGroup() && pt.C.IsOnCurve() && pt.C.IsInSubGroup()
}

// ShortCoords counts coordinates whose big-endian form is shorter than 32 bytes.
func (pt Points) ShortCoords() int {
	n := 0
	for _, c := range pt.Coords() {
		if (c.BitLen()+7)/8 < 32 {
			n++
		}
	}
	return n
}

// ProofDoc renders the proof JSON document {"ar":[..],"bs":[[..],[..]],"krs":[..]} independently.
func (pt Points) ProofDoc(style string) []byte {
	c := pt.Coords()
	s := func(i int) string { return Num(c[i], style) }
	return MustJSON(map[string]any{
		"ar":  []string{s(0), s(1)},
		"bs":  [][]string{{s(2), s(3)}, {s(4), s(5)}},
		"krs": []string{s(6), s(7)},
	})
}

// ReadProofDoc parses a proof JSON document independently of the code under test.
func ReadProofDoc(text []byte) ([8]*big.Int, error) {
	var out [8]*big.Int
	dec := json.NewDecoder(bytes.NewReader(text))
	var doc struct {
		Ar  []string   `json:"ar"`
		Bs  [][]string `json:"bs"`
		Krs []string   `json:"krs"`
	}
	dec.DisallowUnknownFields()
	if err := dec.Decode(&doc); err != nil {
		return out, err
	}
	if dec.More() {
		return out, fmt.Errorf("trailing data after the proof")
	}
	if len(doc.Ar) != 2 || len(doc.Bs) != 2 || len(doc.Bs[0]) != 2 || len(doc.Bs[1]) != 2 || len(doc.Krs) != 2 {
		return out, fmt.Errorf("wrong proof shape")
	}
	flat := []string{doc.Ar[0], doc.Ar[1], doc.Bs[0][0], doc.Bs[0][1], doc.Bs[1][0], doc.Bs[1][1], doc.Krs[0], doc.Krs[1]}
	for i, s := range flat {
		if len(s) < 3 || (s[:2] != "0x" && s[:2] != "0X") {
			return out, fmt.Errorf("coordinate %d is not a hexadecimal integer: %q", i, s)
		}
		v, ok := new(big.Int).SetString(s[2:], 16)
		if !ok || v.Sign() < 0 {
			return out, fmt.Errorf("coordinate %d is not a hexadecimal integer: %q", i, s)
		}
		out[i] = v
	}
	return out, nil
}

// VKDelta reads [δ]2 from a gnark verifying key by reflection.
func VKDelta(vk groth16.VerifyingKey) bn254.G2Affine {
	v := reflect.ValueOf(vk).Elem()
	return v.FieldByName("G2").FieldByName("Delta").Interface().(bn254.G2Affine)
}

// Rerandomise derives another valid proof of the same statement:
// A' = r1^-1 A, B' = r1 B + r1 r2 δ, C' = C + r2 A.
func Rerandomise(pt Points, delta bn254.G2Affine, rng *rand.Rand) Points {
	var r1, r2, r1inv, r1r2 fr.Element
	for r1.IsZero() {
		r1.SetBigInt(new(big.Int).Rand(rng, fr.Modulus()))
	}
	r2.SetBigInt(new(big.Int).Rand(rng, fr.Modulus()))
	r1inv.Inverse(&r1)
	r1r2.Mul(&r1, &r2)
	bi := func(e *fr.Element) *big.Int { return e.BigInt(new(big.Int)) }
	var out Points
	out.A.ScalarMultiplication(&pt.A, bi(&r1inv))
	var t1, t2 bn254.G2Affine
	t1.ScalarMultiplication(&pt.B, bi(&r1))
	t2.ScalarMultiplication(&delta, bi(&r1r2))
	out.B.Add(&t1, &t2)
	var t3 bn254.G1Affine
	t3.ScalarMultiplication(&pt.A, bi(&r2))
	out.C.Add(&pt.C, &t3)
	return out
}

// PublicWitnessVector is the one-element public witness (the input hash).
func HashElem(h *big.Int) fr.Element {
	var e fr.Element
	e.SetBigInt(h)
	return e
}
