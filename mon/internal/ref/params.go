package ref

import (
	"bytes"
	"encoding/json"
	"fmt"
	"math/big"
	"strings"
)

// InsParams / DelParams are the monitor's own representation of a parameter
// document (field names from the README and the integration tests).
type InsParams struct {
	InputHash  *big.Int
	StartIndex uint32
	Pre, Post  *big.Int
	Ids        []*big.Int
	Proofs     [][]*big.Int
}

type DelParams struct {
	InputHash *big.Int
	Indices   []uint32
	Pre, Post *big.Int
	Ids       []*big.Int
	Proofs    [][]*big.Int
}

// Num renders v in the given style: "hex" (0x, lower case, minimal), "HEX"
// (0X, upper case), "dec", "padhex" (0x + 64 digits).
func Num(v *big.Int, style string) string {
	switch style {
	case "HEX":
		return "0X" + strings.ToUpper(v.Text(16))
	case "dec":
		return v.Text(10)
	case "padhex":
		return fmt.Sprintf("0x%064s", v.Text(16))
	}
	return "0x" + v.Text(16)
}

func nums(vs []*big.Int, style string) []any {
	out := make([]any, len(vs))
	for i, v := range vs {
		out[i] = Num(v, style)
	}
	return out
}

func numss(vs [][]*big.Int, style string) []any {
	out := make([]any, len(vs))
	for i, v := range vs {
		out[i] = nums(v, style)
	}
	return out
}

// InsDoc builds the JSON document as a generic map so callers can perturb it.
func InsDoc(p *InsParams, style string) map[string]any {
	return map[string]any{
		"inputHash": Num(p.InputHash, style), "startIndex": p.StartIndex,
		"preRoot": Num(p.Pre, style), "postRoot": Num(p.Post, style),
		"identityCommitments": nums(p.Ids, style), "merkleProofs": numss(p.Proofs, style),
	}
}

func DelDoc(p *DelParams, style string) map[string]any {
	idx := make([]any, len(p.Indices))
	for i, v := range p.Indices {
		idx[i] = v
	}
	return map[string]any{
		"inputHash": Num(p.InputHash, style), "deletionIndices": idx,
		"preRoot": Num(p.Pre, style), "postRoot": Num(p.Post, style),
		"identityCommitments": nums(p.Ids, style), "merkleProofs": numss(p.Proofs, style),
	}
}

func MustJSON(v any) []byte {
	b, err := json.Marshal(v)
	if err != nil {
		panic(err)
	}
	return b
}

func parseNum(v any) (*big.Int, error) {
	s, ok := v.(string)
	if !ok {
		return nil, fmt.Errorf("number is not a JSON string: %v", v)
	}
	n, ok := new(big.Int).SetString(s, 0)
	if !ok {
		return nil, fmt.Errorf("not a number: %q", s)
	}
	return n, nil
}

func parseNums(v any) ([]*big.Int, error) {
	a, ok := v.([]any)
	if !ok {
		return nil, fmt.Errorf("not an array: %v", v)
	}
	out := make([]*big.Int, len(a))
	for i := range a {
		n, err := parseNum(a[i])
		if err != nil {
			return nil, err
		}
		out[i] = n
	}
	return out, nil
}

func parseU32(v any) (uint32, error) {
	n, ok := v.(json.Number)
	if !ok {
		return 0, fmt.Errorf("index is not a JSON number: %v", v)
	}
	b, ok := new(big.Int).SetString(n.String(), 10)
	if !ok || b.Sign() < 0 || b.BitLen() > 32 {
		return 0, fmt.Errorf("index out of range: %s", n)
	}
	return uint32(b.Uint64()), nil
}

func decodeObj(text []byte) (map[string]any, error) {
	dec := json.NewDecoder(bytes.NewReader(text))
	dec.UseNumber()
	var m map[string]any
	if err := dec.Decode(&m); err != nil {
		return nil, err
	}
	if dec.More() {
		return nil, fmt.Errorf("trailing data")
	}
	return m, nil
}

func parseCommon(m map[string]any) (h, pre, post *big.Int, ids []*big.Int, proofs [][]*big.Int, err error) {
	if h, err = parseNum(m["inputHash"]); err != nil {
		return
	}
	if pre, err = parseNum(m["preRoot"]); err != nil {
		return
	}
	if post, err = parseNum(m["postRoot"]); err != nil {
		return
	}
	if ids, err = parseNums(m["identityCommitments"]); err != nil {
		return
	}
	a, ok := m["merkleProofs"].([]any)
	if !ok {
		err = fmt.Errorf("merkleProofs is not an array")
		return
	}
	proofs = make([][]*big.Int, len(a))
	for i := range a {
		if proofs[i], err = parseNums(a[i]); err != nil {
			return
		}
	}
	return
}

// ReadIns parses an insertion parameter document independently of the code under test.
func ReadIns(text []byte) (*InsParams, error) {
	m, err := decodeObj(text)
	if err != nil {
		return nil, err
	}
	p := &InsParams{}
	if p.InputHash, p.Pre, p.Post, p.Ids, p.Proofs, err = parseCommon(m); err != nil {
		return nil, err
	}
	if p.StartIndex, err = parseU32(m["startIndex"]); err != nil {
		return nil, err
	}
	return p, nil
}

func ReadDel(text []byte) (*DelParams, error) {
	m, err := decodeObj(text)
	if err != nil {
		return nil, err
	}
	p := &DelParams{}
	if p.InputHash, p.Pre, p.Post, p.Ids, p.Proofs, err = parseCommon(m); err != nil {
		return nil, err
	}
	a, ok := m["deletionIndices"].([]any)
	if !ok {
		return nil, fmt.Errorf("deletionIndices is not an array")
	}
	p.Indices = make([]uint32, len(a))
	for i := range a {
		if p.Indices[i], err = parseU32(a[i]); err != nil {
			return nil, err
		}
	}
	return p, nil
}
