// Package sysutil holds helpers around real Groth16 proving systems of the
// repository: setup, valid/invalid parameter sets with reference hashes, and
// independent verification.
package sysutil

import (
	"fmt"
	"math/big"
	"math/rand"

	"github.com/consensys/gnark-crypto/ecc"
	"github.com/consensys/gnark/backend/groth16"
	"github.com/consensys/gnark/backend/witness"

	"worldcoin/gnark-mbu/prover"

	"verifmon/internal/cases"
	"verifmon/internal/ref"
)

// Setup runs the repository's trusted-setup code for a mode and dimension.
func Setup(mode string, depth, batch int) (*prover.ProvingSystem, error) {
	if mode == "insertion" {
		return prover.SetupInsertion(uint32(depth), uint32(batch))
	}
	return prover.SetupDeletion(uint32(depth), uint32(batch))
}

// InsParams converts a generated case to a parameter document with the
// reference hash of its own values.
func InsParams(c *cases.Ins) *ref.InsParams {
	p := &ref.InsParams{StartIndex: uint32(c.Start.Uint64()), Pre: c.Pre, Post: c.Post, Ids: c.Ids, Proofs: c.Proofs}
	p.InputHash = ref.HashToField(ref.PackInsertion(p.StartIndex, p.Pre, p.Post, p.Ids))
	return p
}

func DelParams(c *cases.Del) *ref.DelParams {
	p := &ref.DelParams{Pre: c.Pre, Post: c.Post, Ids: c.Items, Proofs: c.Proofs}
	for _, v := range c.Indices {
		p.Indices = append(p.Indices, uint32(v.Uint64()))
	}
	p.InputHash = ref.HashToField(ref.PackDeletion(p.Indices, p.Pre, p.Post))
	return p
}

// fits32 reports whether all indices of the case fit the uint32 parameter fields.
func InsFits(c *cases.Ins) bool { return c.Start.BitLen() <= 32 }

func DelFits(c *cases.Del) bool {
	for _, v := range c.Indices {
		if v.BitLen() > 32 {
			return false
		}
	}
	return true
}

var validIns = []string{"valid/first-free", "valid/last-leaves", "valid/random-pos", "valid/after-occupied", "valid/commitment-zero", "valid/commitment-extremes", "valid/all-zero-commitments"}
var validDel = []string{"valid/members", "valid/mixed-padding", "valid/all-padding", "valid/padding-garbage", "valid/padding-genuine-proof", "valid/padding-extremes", "valid/empty-leaf-zero", "valid/duplicate-then-zero"}

// ValidInsK is ValidIns with the class chosen by k (callers pass a counter so that every valid class,
// e.g. "ends exactly on the last leaf", occurs for certain).
func ValidInsK(r *rand.Rand, depth, batch, k int) *cases.Ins {
	for tries := 0; tries < 50; tries++ {
		c, ok := cases.BN254.Insertion(r, validIns[(k+tries)%len(validIns)], depth, batch)
		if ok && c.Valid && InsFits(c) {
			return c
		}
	}
	return ValidIns(r, depth, batch)
}

func ValidDelK(r *rand.Rand, depth, batch, k int) *cases.Del {
	for tries := 0; tries < 50; tries++ {
		c, ok := cases.BN254.Deletion(r, validDel[(k+tries)%len(validDel)], depth, batch)
		if ok && c.Valid && DelFits(c) {
			return c
		}
	}
	return ValidDel(r, depth, batch)
}

// ValidIns draws a valid insertion batch (as judged by the oracle).
func ValidIns(r *rand.Rand, depth, batch int) *cases.Ins {
	for {
		c, ok := cases.BN254.Insertion(r, validIns[r.Intn(len(validIns))], depth, batch)
		if ok && c.Valid && InsFits(c) {
			return c
		}
	}
}

func ValidDel(r *rand.Rand, depth, batch int) *cases.Del {
	for {
		c, ok := cases.BN254.Deletion(r, validDel[r.Intn(len(validDel))], depth, batch)
		if ok && c.Valid && DelFits(c) {
			return c
		}
	}
}

// PublicWitness is the one-element public witness holding the input hash.
func PublicWitness(hash *big.Int) (witness.Witness, error) {
	w, err := witness.New(ecc.BN254.ScalarField())
	if err != nil {
		return nil, err
	}
	ch := make(chan any, 1)
	ch <- new(big.Int).Mod(hash, ref.R)
	close(ch)
	if err := w.Fill(1, 0, ch); err != nil {
		return nil, err
	}
	return w, nil
}

// Verify checks a proof against a verifying key and an input hash using gnark
// directly (not the repository's wrappers).
func Verify(pt ref.Points, vk groth16.VerifyingKey, hash *big.Int) error {
	w, err := PublicWitness(hash)
	if err != nil {
		return fmt.Errorf("public witness: %w", err)
	}
	return groth16.Verify(pt.ToProof(), vk, w)
}
