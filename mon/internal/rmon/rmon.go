// Package rmon is the R1CS monitor core: it compiles harness circuits with the
// same frontend the repository uses, runs the real gnark solver on them with
// honest or dishonest hint tables, re-derives every "accepted" verdict with an
// independent constraint evaluator and audits the structure of the system.
package rmon

import (
	"errors"
	"fmt"
	"math"
	"math/big"
	"regexp"
	"sync"

	"github.com/consensys/gnark-crypto/ecc"
	"github.com/consensys/gnark-crypto/ecc/bn254/fr"
	"github.com/consensys/gnark/backend"
	"github.com/consensys/gnark/backend/hint"
	"github.com/consensys/gnark/constraint"
	bn "github.com/consensys/gnark/constraint/bn254"
	"github.com/consensys/gnark/frontend"
	"github.com/consensys/gnark/frontend/cs/r1cs"
	"github.com/consensys/gnark/std/math/bits"
)

var (
	NBitsID   = hint.UUID(bits.NBits)
	InvZeroID = hint.UUID(hint.InvZero)
)

// Audit is the result of the structure audit of a compiled system.
type Audit struct {
	Constraints   int
	InternalWires int
	HintWires     int
	ODefined      int
	Exceptions    int // internal non-hint wires not defined as the O side of exactly one earlier constraint
	HintIDs       map[hint.ID]int
	UnknownHints  int // hint calls other than NBits / InvZero
	Public        []string
	NbSecret      int
}

// Sys is one compiled constraint system.
type Sys struct {
	Field *big.Int
	CCS   constraint.ConstraintSystem
	BN    *bn.R1CS // non-nil for BN254
	Audit Audit
}

var compileMu sync.Mutex

// Compile compiles circuit over field (BN254 scalar field or any modulus gnark
// has a constraint-system implementation for, including the 47-element test field).
func Compile(field *big.Int, circuit frontend.Circuit) (*Sys, error) {
	ccs, err := frontend.Compile(field, r1cs.NewBuilder, circuit)
	if err != nil {
		return nil, err
	}
	s := &Sys{Field: field, CCS: ccs}
	if b, ok := ccs.(*bn.R1CS); ok {
		s.BN = b
		s.audit()
	}
	return s, nil
}

func (s *Sys) audit() {
	c := s.BN
	a := Audit{Constraints: len(c.Constraints), InternalWires: c.NbInternalVariables, HintIDs: map[hint.ID]int{},
		Public: append([]string{}, c.Public...), NbSecret: len(c.Secret)}
	nIn := len(c.Public) + len(c.Secret)
	n := nIn + c.NbInternalVariables
	state := make([]uint8, n) // 0 unseen, 1 defined, 2 exception
	for i := 0; i < nIn; i++ {
		state[i] = 1
	}
	seenHint := map[*constraint.Hint]bool{}
	for w, h := range c.MHints {
		state[w] = 1
		a.HintWires++
		if !seenHint[h] {
			seenHint[h] = true
			a.HintIDs[h.ID]++
			if h.ID != NBitsID && h.ID != InvZeroID {
				a.UnknownHints++
			}
		}
	}
	use := func(le constraint.LinearExpression) {
		for _, t := range le {
			if t.IsConstant() {
				continue
			}
			if state[t.WireID()] == 0 {
				state[t.WireID()] = 2 // used in L/R before being defined
			}
		}
	}
	for _, r := range c.Constraints {
		use(r.L)
		use(r.R)
		fresh := 0
		for _, t := range r.O {
			if t.IsConstant() {
				continue
			}
			if state[t.WireID()] == 0 {
				fresh++
				state[t.WireID()] = 1
				a.ODefined++
			}
		}
		if fresh > 1 {
			a.Exceptions += fresh - 1
		}
	}
	for i := nIn; i < n; i++ {
		if state[i] != 1 {
			a.Exceptions++
		}
	}
	s.Audit = a
}

// Result of one solve.
type Result struct {
	Accepted bool
	Err      error
	Site     string // file:line of the constraint that rejected, when debug info is available
	Checked  int    // constraints re-multiplied by the independent evaluator (accepted BN254 solves)
	EvalErr  string // non-empty if the independent evaluator disagrees with the solver's "accepted"
}

var siteRe = regexp.MustCompile(`([A-Za-z0-9_]+\.go:\d+)`)

func siteOf(err error) string {
	if err == nil {
		return ""
	}
	m := siteRe.FindAllString(err.Error(), -1)
	// the first frame inside the repository is the interesting one
	for _, s := range m {
		for _, f := range []string{"circuit_utils.go", "insertion_circuit.go", "deletion_circuit.go", "keccak.go", "poseidon.go", "harness.go", "c06.go"} {
			if len(s) > len(f) && s[:len(f)] == f {
				return s
			}
		}
	}
	if len(m) > 0 {
		return m[0]
	}
	return "no-debug-info"
}

// Hints is a table of hint overrides.
type Hints map[hint.ID]hint.Function

func (h Hints) option() backend.ProverOption {
	return func(c *backend.ProverConfig) error {
		for id, f := range h {
			c.HintFunctions[id] = f
		}
		return nil
	}
}

// Solve runs the real solver on assignment with the given hint overrides.
func (s *Sys) Solve(assignment frontend.Circuit, hints Hints) Result {
	return s.SolveWith(assignment, hints.option())
}

// WrapAll returns a prover option that replaces EVERY registered hint function f (whatever hints the system under
// test turns out to use) by wrap(id, f).
func WrapAll(wrap func(id hint.ID, honest hint.Function) hint.Function) backend.ProverOption {
	return func(c *backend.ProverConfig) error {
		for id, f := range c.HintFunctions {
			c.HintFunctions[id] = wrap(id, f)
		}
		return nil
	}
}

// SolveWith runs the real solver on assignment under an arbitrary prover option.
func (s *Sys) SolveWith(assignment frontend.Circuit, popt backend.ProverOption) Result {
	w, err := frontend.NewWitness(assignment, s.Field)
	if err != nil {
		return Result{Err: fmt.Errorf("witness: %w", err), Site: "witness"}
	}
	if s.BN == nil {
		err = s.CCS.IsSolved(w, popt)
		return Result{Accepted: err == nil, Err: err, Site: siteOf(err)}
	}
	opt, err := backend.NewProverConfig(popt)
	if err != nil {
		return Result{Err: err}
	}
	c := s.BN
	a := make(fr.Vector, len(c.Constraints))
	b := make(fr.Vector, len(c.Constraints))
	cc := make(fr.Vector, len(c.Constraints))
	v := w.Vector().(fr.Vector)
	wires, err := c.Solve(v, a, b, cc, opt)
	if err != nil {
		return Result{Err: err, Site: siteOf(err)}
	}
	res := Result{Accepted: true}
	// independent re-evaluation: L*R == O for every constraint, inputs unchanged
	if !wires[0].IsOne() {
		res.EvalErr = "wire 0 is not one"
	}
	for i := range v {
		if !wires[i+1].Equal(&v[i]) {
			res.EvalErr = fmt.Sprintf("input wire %d changed by the solver", i+1)
		}
	}
	eval := func(le constraint.LinearExpression) fr.Element {
		var acc, t fr.Element
		for _, term := range le {
			coeff := &c.Coefficients[term.CoeffID()]
			if term.VID == math.MaxUint32 {
				acc.Add(&acc, coeff)
				continue
			}
			t.Mul(coeff, &wires[term.WireID()])
			acc.Add(&acc, &t)
		}
		return acc
	}
	for i, r := range c.Constraints {
		l, rr, o := eval(r.L), eval(r.R), eval(r.O)
		l.Mul(&l, &rr)
		if !l.Equal(&o) {
			res.EvalErr = fmt.Sprintf("constraint %d: L*R != O on the solver's wire vector", i)
			break
		}
		res.Checked++
	}
	return res
}

// BN254 is the scalar field all production circuits are compiled over.
var BN254 = ecc.BN254.ScalarField()

// ---- hint strategies ---------------------------------------------------------

// HonestNBits / HonestInvZero are the library's own hint functions.
var HonestNBits hint.Function = bits.NBits
var HonestInvZero hint.Function = hint.InvZero

// NBitsWhen returns an NBits replacement that answers with forged(v, n) for
// calls matching (value == target, number of outputs == width) and honestly otherwise.
// width == 0 matches any width; target == nil matches any value.
func NBitsWhen(target *big.Int, width int, forged func(v *big.Int, n int) []*big.Int, fired *int) hint.Function {
	var mu sync.Mutex
	return func(q *big.Int, in []*big.Int, out []*big.Int) error {
		if (target == nil || in[0].Cmp(target) == 0) && (width == 0 || len(out) == width) {
			f := forged(in[0], len(out))
			if f != nil {
				for i := range out {
					out[i].Set(f[i])
				}
				mu.Lock()
				*fired++
				mu.Unlock()
				return nil
			}
		}
		return bits.NBits(q, in, out)
	}
}

// NBitsNth forges only the nth (0-based) call matching (target, width); other matching calls are answered
// honestly. A circuit may decompose the same value more than once: the prover chooses each answer separately.
func NBitsNth(target *big.Int, width, nth int, forged func(v *big.Int, n int) []*big.Int, fired *int) hint.Function {
	var mu sync.Mutex
	seen := 0
	return func(q *big.Int, in []*big.Int, out []*big.Int) error {
		if (target == nil || in[0].Cmp(target) == 0) && (width == 0 || len(out) == width) {
			if f := forged(in[0], len(out)); f != nil { // nil: this call cannot carry the forgery (too narrow)
				mu.Lock()
				k := seen
				seen++
				mu.Unlock()
				if k == nth || nth < 0 {
					for i := range out {
						out[i].Set(f[i])
					}
					mu.Lock()
					*fired++
					mu.Unlock()
					return nil
				}
			}
		}
		return bits.NBits(q, in, out)
	}
}

// BitsOf returns the n low bits of v (as 0/1 big.Ints).
func BitsOf(v *big.Int, n int) []*big.Int {
	out := make([]*big.Int, n)
	for i := range out {
		out[i] = big.NewInt(int64(v.Bit(i)))
	}
	return out
}

// InvZeroWhen returns an InvZero replacement answering `answer(a)` for inputs
// matching target (nil = any non-matching rule decided by answer returning nil).
func InvZeroWhen(answer func(q, a *big.Int) *big.Int, fired *int) hint.Function {
	var mu sync.Mutex
	return func(q *big.Int, in []*big.Int, out []*big.Int) error {
		if r := answer(q, in[0]); r != nil {
			out[0].Set(r)
			mu.Lock()
			*fired++
			mu.Unlock()
			return nil
		}
		return hint.InvZero(q, in, out)
	}
}

// Wrap audits a system compiled elsewhere (e.g. by prover.BuildR1CSInsertion).
func Wrap(ccs constraint.ConstraintSystem) *Sys {
	s := &Sys{Field: BN254, CCS: ccs}
	if b, ok := ccs.(*bn.R1CS); ok {
		s.BN = b
		s.audit()
	}
	return s
}

// SolveFixPublic runs the solver like SolveWith. When the solve is rejected at a constraint in which the first
// public wire (wire 1) occurs affinely, it also returns the value that wire would need for that constraint to hold,
// computed from the wire values the solver had reached: this is how a monitor learns what a circuit "wants" its
// public input to be under a forged hint table, without a probe inside the circuit under test.
func (s *Sys) SolveFixPublic(assignment frontend.Circuit, popt backend.ProverOption) (Result, *big.Int) {
	if s.BN == nil {
		return s.SolveWith(assignment, popt), nil
	}
	w, err := frontend.NewWitness(assignment, s.Field)
	if err != nil {
		return Result{Err: fmt.Errorf("witness: %w", err), Site: "witness"}, nil
	}
	opt, err := backend.NewProverConfig(popt)
	if err != nil {
		return Result{Err: err}, nil
	}
	c := s.BN
	a := make(fr.Vector, len(c.Constraints))
	b := make(fr.Vector, len(c.Constraints))
	cc := make(fr.Vector, len(c.Constraints))
	wires, err := c.Solve(w.Vector().(fr.Vector), a, b, cc, opt)
	if err == nil {
		return Result{Accepted: true}, nil
	}
	res := Result{Err: err, Site: siteOf(err)}
	var ue *bn.UnsatisfiedConstraintError
	if !errors.As(err, &ue) || ue.CID < 0 || ue.CID >= len(c.Constraints) || len(wires) < 2 {
		return res, nil
	}
	r := c.Constraints[ue.CID]
	evalAt := func(le constraint.LinearExpression, x *fr.Element) (acc fr.Element, has bool) {
		var t fr.Element
		for _, term := range le {
			coeff := &c.Coefficients[term.CoeffID()]
			if term.VID == math.MaxUint32 {
				acc.Add(&acc, coeff)
				continue
			}
			v := &wires[term.WireID()]
			if term.WireID() == 1 {
				v = x
				has = true
			}
			t.Mul(coeff, v)
			acc.Add(&acc, &t)
		}
		return
	}
	f := func(x *fr.Element) (fr.Element, int) {
		l, hl := evalAt(r.L, x)
		rr, hr := evalAt(r.R, x)
		o, ho := evalAt(r.O, x)
		l.Mul(&l, &rr)
		l.Sub(&l, &o)
		n := 0
		for _, h := range []bool{hl, hr, ho} {
			if h {
				n++
			}
		}
		if hl && hr {
			n = 99 // quadratic in the public wire
		}
		return l, n
	}
	var zero, one fr.Element
	one.SetOne()
	f0, n := f(&zero)
	if n == 0 || n == 99 {
		return res, nil
	}
	f1, _ := f(&one)
	var slope fr.Element
	slope.Sub(&f1, &f0)
	if slope.IsZero() {
		return res, nil
	}
	slope.Inverse(&slope)
	f0.Neg(&f0)
	f0.Mul(&f0, &slope)
	x := new(big.Int)
	f0.BigInt(x)
	return res, x
}
