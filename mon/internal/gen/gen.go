// Package gen holds the seeded case generators shared by the monitors. Every
// case derives its own PRNG from (VERIF_SEED, case key), so a case can be
// re-executed in isolation from its key alone (replay).
package gen

import (
	"crypto/sha256"
	"encoding/binary"
	"math/big"
	"math/rand"
)

// RNG returns a PRNG determined by seed and key only.
func RNG(seed int64, key string) *rand.Rand {
	h := sha256.New()
	var b [8]byte
	binary.BigEndian.PutUint64(b[:], uint64(seed))
	h.Write(b[:])
	h.Write([]byte(key))
	s := h.Sum(nil)
	return rand.New(rand.NewSource(int64(binary.BigEndian.Uint64(s[:8]))))
}

// Below returns a uniform value in [0, m).
func Below(r *rand.Rand, m *big.Int) *big.Int {
	return new(big.Int).Rand(r, m)
}

// WithLeadingZeroBytes returns a value whose 32-byte big-endian form has
// exactly k leading zero bytes (k in 0..31) and is below m when possible.
func WithLeadingZeroBytes(r *rand.Rand, k int, m *big.Int) *big.Int {
	for {
		n := 32 - k
		b := make([]byte, n)
		r.Read(b)
		if b[0] == 0 {
			b[0] = byte(1 + r.Intn(255))
		}
		v := new(big.Int).SetBytes(b)
		if v.Cmp(m) < 0 {
			return v
		}
		if k == 0 {
			b[0] &= 0x1f
			if b[0] == 0 {
				b[0] = 1
			}
			v = new(big.Int).SetBytes(b)
			if v.Cmp(m) < 0 {
				return v
			}
		}
	}
}

// Magnitude classes for 256-bit field values.
var MagClasses = []string{"zero", "one", "two", "r-1", "r-2", "half", "pow2", "pow2-1", "small", "lz", "sparse", "dense", "uniform"}

// Elem draws a field element of the given magnitude class below modulus m.
func Elem(r *rand.Rand, class string, m *big.Int) *big.Int {
	if m.BitLen() < 64 { // tiny fields: only the edge classes make sense
		switch class {
		case "zero", "one", "two", "r-1", "r-2", "half":
		default:
			return Below(r, m)
		}
	}
	switch class {
	case "zero":
		return big.NewInt(0)
	case "one":
		return big.NewInt(1)
	case "two":
		return big.NewInt(2)
	case "r-1":
		return new(big.Int).Sub(m, big.NewInt(1))
	case "r-2":
		return new(big.Int).Sub(m, big.NewInt(2))
	case "half":
		return new(big.Int).Rsh(new(big.Int).Sub(m, big.NewInt(1)), 1)
	case "pow2":
		return new(big.Int).Lsh(big.NewInt(1), uint(r.Intn(m.BitLen()-1)))
	case "pow2-1":
		return new(big.Int).Sub(new(big.Int).Lsh(big.NewInt(1), uint(1+r.Intn(m.BitLen()-1))), big.NewInt(1))
	case "small":
		return big.NewInt(int64(r.Intn(256)))
	case "lz":
		return WithLeadingZeroBytes(r, 1+r.Intn(31), m)
	case "sparse":
		v := new(big.Int)
		for i := 0; i < 1+r.Intn(4); i++ {
			v.SetBit(v, r.Intn(m.BitLen()-1), 1)
		}
		return v
	case "dense":
		v := new(big.Int).Sub(new(big.Int).Lsh(big.NewInt(1), uint(m.BitLen()-1)), big.NewInt(1))
		for i := 0; i < 1+r.Intn(4); i++ {
			v.SetBit(v, r.Intn(m.BitLen()-1), 0)
		}
		return v
	}
	return Below(r, m)
}

// AnyElem picks a magnitude class at random, favouring uniform.
func AnyElem(r *rand.Rand, m *big.Int) *big.Int {
	if r.Intn(3) != 0 {
		return Below(r, m)
	}
	return Elem(r, MagClasses[r.Intn(len(MagClasses))], m)
}

// NonZeroElem draws a non-zero element.
func NonZeroElem(r *rand.Rand, m *big.Int) *big.Int {
	for {
		v := AnyElem(r, m)
		if v.Sign() != 0 {
			return v
		}
	}
}
