package cases

import (
	"fmt"
	"strings"
	"testing"

	"verifmon/internal/gen"
)

// The generator aims, the oracle decides: every valid/* class must be judged
// valid and every inv/* class invalid by the reference spec, at all dimensions.
func TestClassesAgreeWithOracle(t *testing.T) {
	for _, dim := range [][2]int{{1, 1}, {1, 2}, {2, 1}, {2, 3}, {3, 2}, {5, 4}, {16, 3}, {31, 2}, {32, 1}} {
		for _, cl := range InsClasses {
			built := 0
			for k := 0; k < 30; k++ {
				c, ok := BN254.Insertion(gen.RNG(1, fmt.Sprint(cl, dim, k)), cl, dim[0], dim[1])
				if !ok {
					continue
				}
				built++
				if c.Valid != strings.HasPrefix(cl, "valid/") {
					t.Errorf("ins %s dim %v k=%d: oracle says valid=%v: %v", cl, dim, k, c.Valid, c.Describe())
					break
				}
			}
			if built == 0 {
				t.Logf("ins %s not buildable at %v", cl, dim)
			}
		}
		if dim[0] > 31 {
			continue
		}
		for _, cl := range DelClasses {
			built := 0
			for k := 0; k < 30; k++ {
				c, ok := BN254.Deletion(gen.RNG(1, fmt.Sprint(cl, dim, k)), cl, dim[0], dim[1])
				if !ok {
					continue
				}
				built++
				if c.Valid != strings.HasPrefix(cl, "valid/") {
					t.Errorf("del %s dim %v k=%d: oracle says valid=%v: %v", cl, dim, k, c.Valid, c.Describe())
					break
				}
			}
			if built == 0 {
				t.Logf("del %s not buildable at %v", cl, dim)
			}
		}
	}
}
