// Package cases generates insertion / deletion batches aimed at the classes
// named in the quantifiers of C01/C02 (also used by C03, C07, C09, C13). The
// generator only *aims*; validity is always decided by ref.ValidInsertion /
// ref.ValidDeletion.
package cases

import (
	"fmt"
	"math/big"
	"math/rand"
	"sort"
	"strings"

	"verifmon/internal/gen"
	"verifmon/internal/ref"
)

// Env fixes the field and the hash the batch lives in.
type Env struct {
	Mod *big.Int
	H   ref.Hasher
}

var BN254 = Env{Mod: ref.R, H: ref.H2}

type Ins struct {
	Class     string
	Depth     int
	Start     *big.Int
	Pre, Post *big.Int
	Ids       []*big.Int
	Proofs    [][]*big.Int
	Valid     bool
	Note      string
}

type Del struct {
	Class     string
	Depth     int
	Indices   []*big.Int
	Pre, Post *big.Int
	Items     []*big.Int
	Proofs    [][]*big.Int
	Valid     bool
	Note      string
}

func (e Env) elem(r *rand.Rand) *big.Int { return gen.Below(r, e.Mod) }

func (e Env) nonzero(r *rand.Rand) *big.Int {
	for {
		v := e.elem(r)
		if v.Sign() != 0 {
			return v
		}
	}
}

func pow2(n int) *big.Int { return new(big.Int).Lsh(big.NewInt(1), uint(n)) }

func size(depth int) uint64 { return uint64(1) << uint(depth) }

// RandomTree builds a pre-state by a random history of insertions and
// deletions: a dense prefix with holes, a few sparse leaves, leaves near the end.
func (e Env) RandomTree(r *rand.Rand, depth int) *ref.Tree {
	t := ref.NewTree(depth, e.H)
	n := size(depth)
	switch r.Intn(6) {
	case 0:
		return t // empty tree
	}
	dense := uint64(r.Intn(12))
	if dense > n {
		dense = n
	}
	for i := uint64(0); i < dense; i++ {
		t.Set(i, e.nonzero(r))
	}
	for i := uint64(0); i < dense; i++ { // holes
		if r.Intn(4) == 0 {
			t.Set(i, big.NewInt(0))
		}
	}
	for k := 0; k < r.Intn(5); k++ { // sparse far-apart leaves
		t.Set(r.Uint64()%n, e.nonzero(r))
	}
	if r.Intn(3) == 0 { // near the end
		for k := 0; k < 1+r.Intn(3); k++ {
			t.Set(n-1-uint64(r.Intn(6))%n, e.nonzero(r))
		}
	}
	if r.Intn(4) == 0 { // overwrite an existing leaf, delete another
		ls := t.Leaves()
		if len(ls) > 0 {
			sort.Slice(ls, func(i, j int) bool { return ls[i] < ls[j] })
			t.Set(ls[r.Intn(len(ls))], e.nonzero(r))
			t.Set(ls[r.Intn(len(ls))], big.NewInt(0))
		}
	}
	return t
}

func (e Env) commitment(r *rand.Rand) *big.Int {
	switch r.Intn(8) {
	case 0:
		return big.NewInt(1)
	case 1:
		return new(big.Int).Sub(e.Mod, big.NewInt(1))
	case 2:
		return gen.AnyElem(r, e.Mod)
	}
	return e.nonzero(r)
}

func occupied(t *ref.Tree) []uint64 {
	var out []uint64
	for _, i := range t.Leaves() {
		if t.Get(i).Sign() != 0 {
			out = append(out, i)
		}
	}
	sort.Slice(out, func(i, j int) bool { return out[i] < out[j] })
	return out
}

// freeRun finds a start such that start..start+b-1 are all empty; mode selects where.
func freeRun(r *rand.Rand, t *ref.Tree, b int, mode int) (uint64, bool) {
	n := size(t.Depth)
	if uint64(b) > n {
		return 0, false
	}
	free := func(s uint64) bool {
		for i := uint64(0); i < uint64(b); i++ {
			if t.Get(s+i).Sign() != 0 {
				return false
			}
		}
		return true
	}
	var cands []uint64
	switch mode {
	case 0: // first free run from 0 (includes holes)
		for s := uint64(0); s+uint64(b) <= n && s < 4096; s++ {
			if free(s) {
				return s, true
			}
		}
	case 1: // the last b leaves
		cands = []uint64{n - uint64(b)}
	case 2: // random positions
		for k := 0; k < 40; k++ {
			cands = append(cands, r.Uint64()%(n-uint64(b)+1))
		}
	case 3: // right after the highest occupied leaf
		occ := occupied(t)
		if len(occ) > 0 {
			cands = []uint64{occ[len(occ)-1] + 1}
		} else {
			cands = []uint64{0}
		}
	}
	for _, s := range cands {
		if s+uint64(b) <= n && s+uint64(b) >= s && free(s) {
			return s, true
		}
	}
	for s := uint64(0); s+uint64(b) <= n && s < 4096; s++ {
		if free(s) {
			return s, true
		}
	}
	return 0, false
}

// honestInsertion writes ids at start.. into a clone of t and collects the paths.
func honestInsertion(t *ref.Tree, start uint64, ids []*big.Int) (paths [][]*big.Int, post *big.Int, after *ref.Tree) {
	w := t.Clone()
	mask := size(t.Depth) - 1
	for i, id := range ids {
		idx := (start + uint64(i)) & mask
		paths = append(paths, w.Path(idx))
		w.Set(idx, id)
	}
	return paths, w.Root(), w
}

func clonePaths(p [][]*big.Int) [][]*big.Int {
	out := make([][]*big.Int, len(p))
	for i := range p {
		out[i] = make([]*big.Int, len(p[i]))
		for j := range p[i] {
			out[i][j] = new(big.Int).Set(p[i][j])
		}
	}
	return out
}

// InsClasses lists the workload classes of Insertion().
var InsClasses = []string{
	"valid/first-free", "valid/last-leaves", "valid/random-pos", "valid/after-occupied", "valid/commitment-zero", "valid/commitment-extremes", "valid/all-zero-commitments",
	"inv/start-past-end", "inv/start-2^32", "inv/start-field-wrap", "inv/occupied-genuine-path", "inv/occupied-other-path",
	"inv/wrong-pre", "inv/stale-paths", "inv/stale-paths-honest-post", "inv/later-path-garbage", "inv/post-short", "inv/post-permuted", "inv/post-random", "inv/post-is-pre",
	"inv/sibling-corrupt", "inv/path-reused", "inv/id-swapped", "inv/start-off-by-one",
}

// Insertion builds one batch of the given class. ok=false when the class
// cannot be built at this dimension (e.g. permutation needs batch >= 2).
func (e Env) Insertion(r *rand.Rand, class string, depth, batch int) (c *Ins, ok bool) {
	t := e.RandomTree(r, depth)
	n := size(depth)
	ids := make([]*big.Int, batch)
	for i := range ids {
		ids[i] = e.commitment(r)
	}
	switch class {
	case "inv/post-short", "inv/post-permuted", "inv/id-swapped", "inv/stale-paths", "inv/stale-paths-honest-post", "inv/later-path-garbage", "inv/path-reused":
		// these need distinct non-zero commitments to be what their name says
		seen := map[string]bool{}
		for i := range ids {
			for ids[i].Sign() == 0 || seen[ids[i].String()] {
				ids[i] = e.nonzero(r)
			}
			seen[ids[i].String()] = true
		}
	}
	c = &Ins{Class: class, Depth: depth, Pre: t.Root(), Ids: ids}
	build := func(mode int) bool {
		s, ok := freeRun(r, t, batch, mode)
		if !ok {
			return false
		}
		c.Start = new(big.Int).SetUint64(s)
		c.Proofs, c.Post, _ = honestInsertion(t, s, ids)
		return true
	}
	switch class {
	case "valid/first-free":
		ok = build(0)
	case "valid/last-leaves":
		ok = build(1)
	case "valid/random-pos":
		ok = build(2)
	case "valid/after-occupied":
		ok = build(3)
	case "valid/commitment-zero":
		ids[r.Intn(batch)] = big.NewInt(0)
		ok = build(r.Intn(4))
	case "valid/all-zero-commitments":
		// writing the empty value into empty leaves is a valid append that leaves the root unchanged
		for i := range ids {
			ids[i] = big.NewInt(0)
		}
		ok = build(r.Intn(4))
	case "valid/commitment-extremes":
		for i := range ids {
			ids[i] = []*big.Int{big.NewInt(1), new(big.Int).Sub(e.Mod, big.NewInt(1)), big.NewInt(2), new(big.Int).Sub(e.Mod, big.NewInt(2))}[r.Intn(4)]
		}
		ids[r.Intn(batch)] = new(big.Int).Sub(e.Mod, big.NewInt(1)) // r-1 is always among them
		ok = build(r.Intn(4))
	case "inv/start-past-end", "inv/start-2^32", "inv/start-field-wrap":
		// the aliased leaves (index mod 2^depth) are made empty, the paths and the
		// post-root are genuine for them: only the range check stands in the way
		var start *big.Int
		switch class {
		case "inv/start-past-end":
			// start in [2^D-B+1, 2^D]: at least one position is outside
			off := uint64(r.Intn(batch + 1))
			if off > uint64(batch-1) {
				off = uint64(batch - 1)
			}
			start = new(big.Int).SetUint64(n - off)
			if r.Intn(3) == 0 {
				start = new(big.Int).SetUint64(n) // exactly one past the last leaf
			}
			if r.Intn(4) == 0 && depth < 40 {
				start = new(big.Int).Add(pow2(depth), new(big.Int).SetUint64(r.Uint64()%n)) // 2^D + j: one bit too high
			}
		case "inv/start-2^32":
			if depth > 32 {
				return c, false
			}
			start = []*big.Int{pow2(32), new(big.Int).Add(pow2(32), big.NewInt(int64(r.Intn(8)))), new(big.Int).Sub(pow2(32), big.NewInt(1)), pow2(33), pow2(64)}[r.Intn(5)]
			if start.Cmp(pow2(depth)) < 0 { // 2^32-1 at depth 32 is inside the tree
				if new(big.Int).Add(start, big.NewInt(int64(batch-1))).Cmp(pow2(depth)) < 0 {
					start = pow2(32)
				}
			}
		case "inv/start-field-wrap":
			start = new(big.Int).Sub(e.Mod, big.NewInt(int64(1+r.Intn(batch+1))))
		}
		w := t.Clone()
		mask := new(big.Int).SetUint64(n - 1)
		idxs := make([]uint64, batch)
		for i := range ids {
			v := new(big.Int).Add(start, big.NewInt(int64(i)))
			v.Mod(v, e.Mod)
			idxs[i] = new(big.Int).And(v, mask).Uint64()
			w.Set(idxs[i], big.NewInt(0))
		}
		c.Pre = w.Root()
		for i, id := range ids {
			c.Proofs = append(c.Proofs, w.Path(idxs[i]))
			w.Set(idxs[i], id)
		}
		c.Post = w.Root()
		c.Start = start
		ok = true
	case "inv/occupied-genuine-path", "inv/occupied-other-path":
		s, found := freeRun(r, t, batch, r.Intn(4))
		if !found {
			return c, false
		}
		k := r.Intn(batch)
		t.Set(s+uint64(k), e.nonzero(r)) // occupy one leaf of the range in the pre-state
		c.Pre = t.Root()
		c.Start = new(big.Int).SetUint64(s)
		c.Proofs, c.Post, _ = honestInsertion(t, s, ids)
		if class == "inv/occupied-other-path" {
			// present the path of some other, empty leaf for the occupied slot
			w := t.Clone()
			for i := 0; i < k; i++ {
				w.Set(s+uint64(i), ids[i])
			}
			if o, found := freeRun(r, w, 1, 2); found && o != s+uint64(k) {
				c.Proofs[k] = w.Path(o)
			}
		}
		ok = true
	case "inv/wrong-pre":
		if !build(r.Intn(4)) {
			return c, false
		}
		c.Pre = e.elem(r)
		if r.Intn(2) == 0 {
			c.Pre = new(big.Int).Add(t.Root(), big.NewInt(1))
			c.Pre.Mod(c.Pre, e.Mod)
		}
		ok = true
	case "inv/stale-paths", "inv/stale-paths-honest-post":
		if batch < 2 {
			return c, false
		}
		s, found := freeRun(r, t, batch, r.Intn(4))
		if !found {
			return c, false
		}
		c.Start = new(big.Int).SetUint64(s)
		for i := range ids {
			c.Proofs = append(c.Proofs, t.Path(s+uint64(i))) // all from the pre-state
		}
		if class == "inv/stale-paths" {
			// what a circuit that does not thread the running root would compute
			c.Post = ref.Fold(e.H, ids[batch-1], s+uint64(batch-1), c.Proofs[batch-1])
		} else {
			_, c.Post, _ = honestInsertion(t, s, ids) // the honest post-root with stale paths
		}
		ok = true
	case "inv/later-path-garbage":
		// the first slot is proved genuinely; a later slot presents a path that authenticates nothing, and the
		// post-root is what folding the LAST slot's commitment along the LAST presented path gives (what a circuit
		// that only checks emptiness for the first slot of a batch would compute)
		if batch < 2 || !build(r.Intn(4)) {
			return c, false
		}
		s := c.Start.Uint64()
		k := 1 + r.Intn(batch-1)
		c.Proofs = clonePaths(c.Proofs)
		for l := range c.Proofs[k] {
			c.Proofs[k][l] = e.elem(r)
		}
		c.Post = ref.Fold(e.H, ids[batch-1], s+uint64(batch-1), c.Proofs[batch-1])
		c.Note = fmt.Sprintf("garbage path in slot %d", k)
		ok = true
	case "inv/post-short", "inv/post-permuted", "inv/post-random", "inv/post-is-pre":
		if !build(r.Intn(4)) {
			return c, false
		}
		s := c.Start.Uint64()
		switch class {
		case "inv/post-short":
			if batch < 2 {
				return c, false
			}
			_, c.Post, _ = honestInsertion(t, s, ids[:batch-1])
		case "inv/post-permuted":
			if batch < 2 {
				return c, false
			}
			perm := append([]*big.Int{}, ids...)
			perm[0], perm[batch-1] = perm[batch-1], perm[0]
			_, c.Post, _ = honestInsertion(t, s, perm)
		case "inv/post-random":
			c.Post = e.elem(r)
		case "inv/post-is-pre":
			c.Post = new(big.Int).Set(c.Pre)
		}
		ok = true
	case "inv/sibling-corrupt":
		if !build(r.Intn(4)) {
			return c, false
		}
		i, l := r.Intn(batch), r.Intn(depth)
		c.Proofs = clonePaths(c.Proofs)
		if r.Intn(2) == 0 {
			c.Proofs[i][l].Add(c.Proofs[i][l], big.NewInt(1))
			c.Proofs[i][l].Mod(c.Proofs[i][l], e.Mod)
		} else {
			c.Proofs[i][l] = e.elem(r)
		}
		c.Note = fmt.Sprintf("slot %d level %d", i, l)
		ok = true
	case "inv/path-reused":
		if batch < 2 || !build(r.Intn(4)) {
			return c, false
		}
		i := 1 + r.Intn(batch-1)
		c.Proofs = clonePaths(c.Proofs)
		c.Proofs[i] = clonePaths(c.Proofs[i-1 : i])[0]
		ok = true
	case "inv/id-swapped":
		if batch < 2 || !build(r.Intn(4)) {
			return c, false
		}
		c.Ids = append([]*big.Int{}, ids...)
		c.Ids[0], c.Ids[batch-1] = c.Ids[batch-1], c.Ids[0]
		ok = true
	case "inv/start-off-by-one":
		if !build(r.Intn(4)) {
			return c, false
		}
		if r.Intn(2) == 0 || c.Start.Sign() == 0 {
			c.Start = new(big.Int).Add(c.Start, big.NewInt(1))
		} else {
			c.Start = new(big.Int).Sub(c.Start, big.NewInt(1))
		}
		ok = true
	default:
		panic("unknown insertion class " + class)
	}
	if !ok {
		return c, false
	}
	c.Valid = ref.ValidInsertion(e.H, e.Mod, depth, c.Start, c.Pre, c.Post, c.Ids, c.Proofs)
	return c, true
}

// InsertionWithIds builds a valid append of the given commitments into a random pre-state.
func (e Env) InsertionWithIds(r *rand.Rand, depth int, ids []*big.Int) (*Ins, bool) {
	t := e.RandomTree(r, depth)
	s, ok := freeRun(r, t, len(ids), r.Intn(4))
	if !ok {
		return nil, false
	}
	c := &Ins{Class: "valid/given-commitments", Depth: depth, Pre: t.Root(), Ids: ids, Start: new(big.Int).SetUint64(s)}
	c.Proofs, c.Post, _ = honestInsertion(t, s, ids)
	c.Valid = ref.ValidInsertion(e.H, e.Mod, depth, c.Start, c.Pre, c.Post, c.Ids, c.Proofs)
	return c, true
}

// DelClasses lists the workload classes of Deletion().
var DelClasses = []string{
	"valid/members", "valid/mixed-padding", "valid/all-padding", "valid/padding-garbage", "valid/padding-genuine-proof", "valid/padding-extremes",
	"valid/empty-leaf-zero", "valid/duplicate-then-zero",
	"inv/empty-leaf-nonzero", "inv/duplicate-original", "inv/index-2^(D+1)", "inv/index-2^(D+1)+member", "inv/index-huge",
	"inv/stale-paths", "inv/wrong-item", "inv/sibling-corrupt", "inv/post-is-pre", "inv/misdeclared-padding", "inv/padding-deletes",
	"inv/post-random", "inv/post-short", "inv/wrong-pre", "inv/claims-empty-noop",
}

// members makes sure the tree has at least k occupied leaves and returns k distinct ones.
func (e Env) members(r *rand.Rand, t *ref.Tree, k int) ([]uint64, bool) {
	n := size(t.Depth)
	if uint64(k) > n {
		return nil, false
	}
	occ := occupied(t)
	for tries := 0; len(occ) < k && tries < 1000; tries++ {
		i := r.Uint64() % n
		if t.Get(i).Sign() == 0 {
			t.Set(i, e.nonzero(r))
			occ = append(occ, i)
		}
	}
	if len(occ) < k {
		return nil, false
	}
	r.Shuffle(len(occ), func(i, j int) { occ[i], occ[j] = occ[j], occ[i] })
	return occ[:k], true
}

// Deletion builds one deletion batch of the given class.
func (e Env) Deletion(r *rand.Rand, class string, depth, batch int) (c *Del, ok bool) {
	t := e.RandomTree(r, depth)
	n := size(depth)
	c = &Del{Class: class, Depth: depth}
	garbagePath := func() []*big.Int {
		p := make([]*big.Int, depth)
		for i := range p {
			p[i] = e.elem(r)
		}
		return p
	}
	padIndex := func() *big.Int {
		switch r.Intn(4) {
		case 0:
			return pow2(depth)
		case 1:
			return new(big.Int).Sub(pow2(depth+1), big.NewInt(1))
		}
		return new(big.Int).Add(pow2(depth), new(big.Int).SetUint64(r.Uint64()%n))
	}
	// slots: plan[i] = -1 padding, otherwise member leaf index
	honest := func(mask []bool, mem []uint64, padKind string) {
		w := t.Clone()
		c.Pre = w.Root()
		mi := 0
		for i := 0; i < batch; i++ {
			if mask[i] { // padding
				c.Indices = append(c.Indices, padIndex())
				switch padKind {
				case "zero":
					c.Items = append(c.Items, big.NewInt(0))
					z := make([]*big.Int, depth)
					for j := range z {
						z[j] = big.NewInt(0)
					}
					c.Proofs = append(c.Proofs, z)
				case "genuine":
					// the padding slot carries a live leaf's genuine value and path
					occ := occupied(w)
					if len(occ) == 0 {
						c.Items = append(c.Items, e.elem(r))
						c.Proofs = append(c.Proofs, garbagePath())
						break
					}
					j := occ[r.Intn(len(occ))]
					c.Indices[i] = new(big.Int).Add(pow2(depth), new(big.Int).SetUint64(j))
					c.Items = append(c.Items, w.Get(j))
					c.Proofs = append(c.Proofs, w.Path(j))
				default:
					c.Items = append(c.Items, e.elem(r))
					c.Proofs = append(c.Proofs, garbagePath())
				}
				continue
			}
			j := mem[mi]
			mi++
			c.Indices = append(c.Indices, new(big.Int).SetUint64(j))
			c.Items = append(c.Items, w.Get(j))
			c.Proofs = append(c.Proofs, w.Path(j))
			w.Set(j, big.NewInt(0))
		}
		c.Post = w.Root()
	}
	randMask := func(minReal, minPad int) []bool {
		for {
			m := make([]bool, batch)
			real, pad := 0, 0
			for i := range m {
				m[i] = r.Intn(2) == 0
				if m[i] {
					pad++
				} else {
					real++
				}
			}
			if real >= minReal && pad >= minPad {
				return m
			}
			if batch < minReal+minPad {
				return nil
			}
		}
	}
	countReal := func(m []bool) int {
		k := 0
		for _, p := range m {
			if !p {
				k++
			}
		}
		return k
	}
	allReal := make([]bool, batch)
	switch class {
	case "valid/members":
		mem, found := e.members(r, t, batch)
		if !found {
			return c, false
		}
		honest(allReal, mem, "")
		ok = true
	case "valid/mixed-padding", "valid/padding-garbage", "valid/padding-genuine-proof", "valid/padding-extremes":
		minReal := 1
		if class != "valid/mixed-padding" {
			minReal = 0
		}
		m := randMask(minReal, 1)
		if m == nil {
			if batch == 1 && minReal == 0 {
				m = []bool{true}
			} else {
				return c, false
			}
		}
		need := countReal(m)
		if class == "valid/padding-genuine-proof" {
			need++ // keep at least one live leaf around for the padding slot to point at
		}
		mem, found := e.members(r, t, need)
		if !found {
			return c, false
		}
		kind := map[string]string{"valid/mixed-padding": "zero", "valid/padding-garbage": "garbage", "valid/padding-genuine-proof": "genuine", "valid/padding-extremes": "garbage"}[class]
		honest(m, mem, kind)
		if class == "valid/padding-extremes" {
			for i := range m {
				if m[i] {
					c.Indices[i] = []*big.Int{pow2(depth), new(big.Int).Sub(pow2(depth+1), big.NewInt(1))}[r.Intn(2)]
				}
			}
		}
		ok = true
	case "valid/all-padding":
		m := make([]bool, batch)
		for i := range m {
			m[i] = true
		}
		honest(m, nil, []string{"zero", "garbage", "genuine"}[r.Intn(3)])
		ok = true
	case "valid/empty-leaf-zero", "inv/empty-leaf-nonzero":
		mem, found := e.members(r, t, batch)
		if !found {
			return c, false
		}
		k := r.Intn(batch)
		t.Set(mem[k], big.NewInt(0)) // that leaf is already empty in the pre-state
		honest(allReal, mem, "")
		if class == "inv/empty-leaf-nonzero" {
			c.Items[k] = e.nonzero(r)
		}
		ok = true
	case "valid/duplicate-then-zero", "inv/duplicate-original":
		if batch < 2 {
			return c, false
		}
		mem, found := e.members(r, t, batch-1)
		if !found {
			return c, false
		}
		// slot b repeats slot a's index
		a := r.Intn(batch - 1)
		full := append([]uint64{}, mem...)
		full = append(full, mem[a])
		orig := t.Get(mem[a])
		origPath := t.Clone()
		honest(allReal, full, "")
		if class == "inv/duplicate-original" {
			// second deletion presents the original value with the path it had when first deleted
			c.Items[batch-1] = orig
			c.Proofs[batch-1] = clonePaths([][]*big.Int{c.Proofs[a]})[0]
			_ = origPath
		}
		ok = true
	case "inv/index-2^(D+1)", "inv/index-2^(D+1)+member", "inv/index-huge":
		mem, found := e.members(r, t, batch)
		if !found {
			return c, false
		}
		honest(allReal, mem, "")
		k := r.Intn(batch)
		// rebuild so that slot k is the offender; genuine member + genuine path stay in place
		var idx *big.Int
		switch class {
		case "inv/index-2^(D+1)":
			idx = pow2(depth + 1)
			if r.Intn(2) == 0 {
				idx = new(big.Int).Add(pow2(depth+1), pow2(depth)) // both high bits
			}
		case "inv/index-2^(D+1)+member":
			idx = new(big.Int).Add(pow2(depth+1), new(big.Int).SetUint64(mem[k]))
		case "inv/index-huge":
			idx = []*big.Int{new(big.Int).Sub(pow2(32), big.NewInt(1)), pow2(32), new(big.Int).Sub(e.Mod, big.NewInt(1)), pow2(40)}[r.Intn(4)]
			if idx.Cmp(e.Mod) >= 0 {
				idx = new(big.Int).Sub(e.Mod, big.NewInt(1))
			}
			if idx.Cmp(pow2(depth+1)) < 0 {
				idx = pow2(depth + 1)
			}
		}
		c.Indices[k] = idx
		if r.Intn(2) == 0 {
			// post-root as if the offending slot were padding
			w := t.Clone()
			for i := range c.Indices {
				if i != k {
					w.Set(c.Indices[i].Uint64(), big.NewInt(0))
				}
			}
			// paths after slot k were computed with k deleted; recompute honestly treating k as a no-op
			w2 := t.Clone()
			for i := range c.Indices {
				if i == k {
					continue
				}
				j := c.Indices[i].Uint64()
				c.Items[i] = w2.Get(j)
				c.Proofs[i] = w2.Path(j)
				w2.Set(j, big.NewInt(0))
			}
			c.Post = w2.Root()
		}
		ok = true
	case "inv/stale-paths":
		if batch < 2 {
			return c, false
		}
		mem, found := e.members(r, t, batch)
		if !found {
			return c, false
		}
		honest(allReal, mem, "")
		for i := range mem {
			c.Proofs[i] = t.Path(mem[i]) // all from the pre-state
		}
		if r.Intn(2) == 0 {
			c.Post = ref.Fold(e.H, big.NewInt(0), mem[batch-1], c.Proofs[batch-1])
		}
		ok = true
	case "inv/wrong-item":
		mem, found := e.members(r, t, batch)
		if !found {
			return c, false
		}
		honest(allReal, mem, "")
		k := r.Intn(batch)
		if r.Intn(2) == 0 {
			c.Items[k] = e.nonzero(r)
		} else {
			c.Items[k] = big.NewInt(0) // claims the leaf is already empty
		}
		ok = true
	case "inv/sibling-corrupt":
		mem, found := e.members(r, t, batch)
		if !found {
			return c, false
		}
		honest(allReal, mem, "")
		i, l := r.Intn(batch), r.Intn(depth)
		c.Proofs = clonePaths(c.Proofs)
		c.Proofs[i][l].Add(c.Proofs[i][l], big.NewInt(1))
		c.Proofs[i][l].Mod(c.Proofs[i][l], e.Mod)
		c.Note = fmt.Sprintf("slot %d level %d", i, l)
		ok = true
	case "inv/post-is-pre":
		mem, found := e.members(r, t, batch)
		if !found {
			return c, false
		}
		honest(allReal, mem, "")
		c.Post = new(big.Int).Set(c.Pre)
		ok = true
	case "inv/misdeclared-padding":
		// a real deletion declared as padding (index + 2^D) but the post-root has the leaf deleted
		mem, found := e.members(r, t, batch)
		if !found {
			return c, false
		}
		honest(allReal, mem, "")
		k := r.Intn(batch)
		c.Indices[k] = new(big.Int).Add(pow2(depth), c.Indices[k])
		ok = true
	case "inv/padding-deletes":
		// a padding slot carrying a live leaf's genuine proof, post-root with that leaf deleted
		need := batch
		mem, found := e.members(r, t, need)
		if !found {
			return c, false
		}
		honest(allReal, mem, "")
		k := r.Intn(batch)
		c.Indices[k] = new(big.Int).Add(pow2(depth), c.Indices[k])
		// identical to misdeclared-padding by construction; additionally vary which slots follow
		if batch > 1 && r.Intn(2) == 0 {
			k2 := (k + 1) % batch
			c.Indices[k2] = new(big.Int).Add(pow2(depth), new(big.Int).Mod(c.Indices[k2], pow2(depth)))
		}
		ok = true
	case "inv/claims-empty-noop":
		// a real slot presents the empty value for a leaf that is NOT empty, and the post-root leaves that leaf
		// in place (the slot is a no-op): the batch "deletes" an index that stays in the tree
		mem, found := e.members(r, t, batch)
		if !found {
			return c, false
		}
		k := r.Intn(batch)
		w := t.Clone()
		c.Pre = w.Root()
		for i, j := range mem {
			c.Indices = append(c.Indices, new(big.Int).SetUint64(j))
			if i == k {
				c.Items = append(c.Items, big.NewInt(0))
				if r.Intn(2) == 0 {
					c.Proofs = append(c.Proofs, w.Path(j)) // genuine path of the (non-empty) leaf
				} else {
					c.Proofs = append(c.Proofs, garbagePath())
				}
				continue // the tree is left as it is
			}
			c.Items = append(c.Items, w.Get(j))
			c.Proofs = append(c.Proofs, w.Path(j))
			w.Set(j, big.NewInt(0))
		}
		c.Post = w.Root()
		ok = true
	case "inv/post-random", "inv/post-short", "inv/wrong-pre":
		mem, found := e.members(r, t, batch)
		if !found {
			return c, false
		}
		honest(allReal, mem, "")
		switch class {
		case "inv/post-random":
			c.Post = e.elem(r)
		case "inv/post-short":
			if batch < 2 {
				return c, false
			}
			w := t.Clone()
			for _, j := range mem[:batch-1] {
				w.Set(j, big.NewInt(0))
			}
			c.Post = w.Root()
		case "inv/wrong-pre":
			c.Pre = e.elem(r)
		}
		ok = true
	default:
		panic("unknown deletion class " + class)
	}
	if !ok {
		return c, false
	}
	c.Valid = ref.ValidDeletion(e.H, e.Mod, depth, c.Indices, c.Pre, c.Post, c.Items, c.Proofs)
	return c, true
}

func hexs(vs []*big.Int) []string {
	out := make([]string, len(vs))
	for i, v := range vs {
		out[i] = "0x" + v.Text(16)
	}
	return out
}

// Describe renders a case for evidence samples / replay files.
func (c *Ins) Describe() map[string]any {
	m := map[string]any{"class": c.Class, "depth": c.Depth, "batch": len(c.Ids), "start": "0x" + c.Start.Text(16),
		"pre": "0x" + c.Pre.Text(16), "post": "0x" + c.Post.Text(16), "ids": hexs(c.Ids), "valid_by_oracle": c.Valid}
	if c.Note != "" {
		m["note"] = c.Note
	}
	if c.Depth <= 4 {
		var ps []string
		for _, p := range c.Proofs {
			ps = append(ps, strings.Join(hexs(p), ","))
		}
		m["paths"] = ps
	}
	return m
}

func (c *Del) Describe() map[string]any {
	m := map[string]any{"class": c.Class, "depth": c.Depth, "batch": len(c.Items), "indices": hexs(c.Indices),
		"pre": "0x" + c.Pre.Text(16), "post": "0x" + c.Post.Text(16), "items": hexs(c.Items), "valid_by_oracle": c.Valid}
	if c.Note != "" {
		m["note"] = c.Note
	}
	if c.Depth <= 4 {
		var ps []string
		for _, p := range c.Proofs {
			ps = append(ps, strings.Join(hexs(p), ","))
		}
		m["paths"] = ps
	}
	return m
}

// Sig is a canonical signature of the whole case (for distinct counting).
func (c *Ins) Sig() string {
	var b strings.Builder
	fmt.Fprintf(&b, "%d|%s|%s|%s|", c.Depth, c.Start.Text(16), c.Pre.Text(16), c.Post.Text(16))
	for _, v := range c.Ids {
		b.WriteString(v.Text(16) + ",")
	}
	for _, p := range c.Proofs {
		for _, v := range p {
			b.WriteString(v.Text(16) + ",")
		}
	}
	return b.String()
}

func (c *Del) Sig() string {
	var b strings.Builder
	fmt.Fprintf(&b, "%d|%s|%s|", c.Depth, c.Pre.Text(16), c.Post.Text(16))
	for _, v := range c.Indices {
		b.WriteString(v.Text(16) + ",")
	}
	for _, v := range c.Items {
		b.WriteString(v.Text(16) + ",")
	}
	for _, p := range c.Proofs {
		for _, v := range p {
			b.WriteString(v.Text(16) + ",")
		}
	}
	return b.String()
}
