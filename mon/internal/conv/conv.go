// Package conv converts between the monitors' reference parameter types and
// the repository's parameter structs.
package conv

import (
	"math/big"

	"worldcoin/gnark-mbu/prover"

	"verifmon/internal/ref"
)

func bigs(vs []*big.Int) []big.Int {
	if vs == nil {
		return nil
	}
	out := make([]big.Int, len(vs))
	for i, v := range vs {
		out[i].Set(v)
	}
	return out
}

func bigss(vs [][]*big.Int) [][]big.Int {
	if vs == nil {
		return nil
	}
	out := make([][]big.Int, len(vs))
	for i, v := range vs {
		out[i] = bigs(v)
	}
	return out
}

func ptrs(vs []big.Int) []*big.Int {
	out := make([]*big.Int, len(vs))
	for i := range vs {
		out[i] = new(big.Int).Set(&vs[i])
	}
	return out
}

func ptrss(vs [][]big.Int) [][]*big.Int {
	out := make([][]*big.Int, len(vs))
	for i := range vs {
		out[i] = ptrs(vs[i])
	}
	return out
}

func ToRepoIns(p *ref.InsParams) *prover.InsertionParameters {
	q := &prover.InsertionParameters{StartIndex: p.StartIndex, IdComms: bigs(p.Ids), MerkleProofs: bigss(p.Proofs)}
	q.InputHash.Set(p.InputHash)
	q.PreRoot.Set(p.Pre)
	q.PostRoot.Set(p.Post)
	return q
}

func ToRepoDel(p *ref.DelParams) *prover.DeletionParameters {
	q := &prover.DeletionParameters{IdComms: bigs(p.Ids), MerkleProofs: bigss(p.Proofs)}
	if p.Indices != nil {
		q.DeletionIndices = append([]uint32{}, p.Indices...)
	}
	q.InputHash.Set(p.InputHash)
	q.PreRoot.Set(p.Pre)
	q.PostRoot.Set(p.Post)
	return q
}

func FromRepoIns(q *prover.InsertionParameters) *ref.InsParams {
	return &ref.InsParams{InputHash: new(big.Int).Set(&q.InputHash), StartIndex: q.StartIndex,
		Pre: new(big.Int).Set(&q.PreRoot), Post: new(big.Int).Set(&q.PostRoot), Ids: ptrs(q.IdComms), Proofs: ptrss(q.MerkleProofs)}
}

func FromRepoDel(q *prover.DeletionParameters) *ref.DelParams {
	return &ref.DelParams{InputHash: new(big.Int).Set(&q.InputHash), Indices: append([]uint32{}, q.DeletionIndices...),
		Pre: new(big.Int).Set(&q.PreRoot), Post: new(big.Int).Set(&q.PostRoot), Ids: ptrs(q.IdComms), Proofs: ptrss(q.MerkleProofs)}
}

func eqNums(a, b []*big.Int) bool {
	if len(a) != len(b) {
		return false
	}
	for i := range a {
		if a[i].Cmp(b[i]) != 0 {
			return false
		}
	}
	return true
}

func eqNumss(a, b [][]*big.Int) bool {
	if len(a) != len(b) {
		return false
	}
	for i := range a {
		if !eqNums(a[i], b[i]) {
			return false
		}
	}
	return true
}

// EqIns compares two insertion parameter sets element-wise (nil == empty).
func EqIns(a, b *ref.InsParams) bool {
	return a.InputHash.Cmp(b.InputHash) == 0 && a.StartIndex == b.StartIndex && a.Pre.Cmp(b.Pre) == 0 &&
		a.Post.Cmp(b.Post) == 0 && eqNums(a.Ids, b.Ids) && eqNumss(a.Proofs, b.Proofs)
}

func EqDel(a, b *ref.DelParams) bool {
	if len(a.Indices) != len(b.Indices) {
		return false
	}
	for i := range a.Indices {
		if a.Indices[i] != b.Indices[i] {
			return false
		}
	}
	return a.InputHash.Cmp(b.InputHash) == 0 && a.Pre.Cmp(b.Pre) == 0 &&
		a.Post.Cmp(b.Post) == 0 && eqNums(a.Ids, b.Ids) && eqNumss(a.Proofs, b.Proofs)
}
