// Package proc builds and drives the real gnark-mbu binary as child processes.
package proc

import (
	"bytes"
	"context"
	"fmt"
	"net"
	"os"
	"os/exec"
	"path/filepath"
	"strings"
	"sync"
	"syscall"
	"time"
)

// ModDir is the monitors' module directory (it replaces worldcoin/gnark-mbu by
// the repository under test, so building the main package by import path
// rebuilds the repository's current working tree without touching its go.mod).
func ModDir(out string) string { return filepath.Join(out, "mon") }

var buildMu sync.Mutex

// BuildBinary builds gnark-mbu (-tags verif, optionally -race) into scratch.
func BuildBinary(out, scratch, repo string, race bool) (string, error) {
	buildMu.Lock()
	defer buildMu.Unlock()
	name := "gnark-mbu"
	args := []string{"build", "-tags", "verif"}
	if race {
		name += "-race"
		args = append(args, "-race")
	}
	bin := filepath.Join(scratch, name)
	if _, err := os.Stat(bin); err == nil {
		return bin, nil
	}
	if repo != "/repo" && repo != "" {
		mod := filepath.Join(scratch, "go.mod")
		if _, err := os.Stat(mod); err == nil {
			args = append(args, "-modfile="+mod)
		}
	}
	args = append(args, "-o", bin, "worldcoin/gnark-mbu")
	cmd := exec.Command("go", args...)
	cmd.Dir = ModDir(out)
	cmd.Env = append(os.Environ(), "GOFLAGS=-mod=mod", "GOPROXY=off", "GOSUMDB=off", "GOTOOLCHAIN=local")
	b, err := cmd.CombinedOutput()
	if err != nil {
		return "", fmt.Errorf("go build gnark-mbu: %v\n%s", err, b)
	}
	return bin, nil
}

// Result of a finished child.
type Result struct {
	Stdout, Stderr []byte
	Exit           int
	TimedOut       bool
	Err            error
}

// Run executes bin with args, feeding stdin, under a generous watchdog.
func Run(bin string, stdin []byte, timeout time.Duration, env []string, args ...string) Result {
	ctx, cancel := context.WithTimeout(context.Background(), timeout)
	defer cancel()
	cmd := exec.CommandContext(ctx, bin, args...)
	cmd.Stdin = bytes.NewReader(stdin)
	var so, se bytes.Buffer
	cmd.Stdout, cmd.Stderr = &so, &se
	cmd.Env = append(os.Environ(), env...)
	err := cmd.Run()
	r := Result{Stdout: so.Bytes(), Stderr: se.Bytes()}
	if ctx.Err() == context.DeadlineExceeded {
		r.TimedOut = true
	}
	if err != nil {
		if ee, ok := err.(*exec.ExitError); ok {
			r.Exit = ee.ExitCode()
		} else {
			r.Err = err
			r.Exit = -1
		}
	}
	return r
}

// FreePorts returns n distinct TCP ports that were free a moment ago.
func FreePorts(n int) []int {
	var ls []net.Listener
	var out []int
	for i := 0; i < n; i++ {
		l, err := net.Listen("tcp", "127.0.0.1:0")
		if err != nil {
			panic(err)
		}
		ls = append(ls, l)
		out = append(out, l.Addr().(*net.TCPAddr).Port)
	}
	for _, l := range ls {
		l.Close()
	}
	return out
}

// Server is a running `gnark-mbu start` child.
type Server struct {
	Cmd           *exec.Cmd
	ProverAddr    string
	MetricsAddr   string
	StderrPath    string
	StdoutPath    string
	EventLog      string
	done          chan struct{}
	exitErr       error
	stderrF, outF *os.File
}

// StartServer launches `bin start` and waits until both ports answer.
func StartServer(bin, mode, keys, scratch, tag string, env []string, extraArgs ...string) (*Server, error) {
	ports := FreePorts(2)
	return StartServerOn(bin, mode, keys, scratch, tag, env, fmt.Sprintf("127.0.0.1:%d", ports[0]), fmt.Sprintf("127.0.0.1:%d", ports[1]), extraArgs...)
}

// StartServerOn is StartServer on two given addresses.
func StartServerOn(bin, mode, keys, scratch, tag string, env []string, proverAddr, metricsAddr string, extraArgs ...string) (*Server, error) {
	s := &Server{ProverAddr: proverAddr, MetricsAddr: metricsAddr,
		StderrPath: filepath.Join(scratch, tag+".stderr"), StdoutPath: filepath.Join(scratch, tag+".stdout"), EventLog: filepath.Join(scratch, tag+".events"), done: make(chan struct{})}
	args := append([]string{"start", "--mode", mode, "--keys-file", keys, "--prover-address", s.ProverAddr, "--metrics-address", s.MetricsAddr}, extraArgs...)
	s.Cmd = exec.Command(bin, args...)
	var err error
	if s.stderrF, err = os.Create(s.StderrPath); err != nil {
		return nil, err
	}
	if s.outF, err = os.Create(s.StdoutPath); err != nil {
		return nil, err
	}
	s.Cmd.Stderr, s.Cmd.Stdout = s.stderrF, s.outF
	s.Cmd.Env = append(append(os.Environ(), "VERIF_EVENTLOG="+s.EventLog), env...)
	if err := s.Cmd.Start(); err != nil {
		return nil, err
	}
	go func() {
		s.exitErr = s.Cmd.Wait()
		close(s.done)
	}()
	deadline := time.Now().Add(180 * time.Second)
	for {
		if s.Exited() {
			return s, fmt.Errorf("server exited during start-up: %v; stderr: %s", s.exitErr, tail(s.StderrPath))
		}
		if dial(s.ProverAddr) && dial(s.MetricsAddr) {
			return s, nil
		}
		if time.Now().After(deadline) {
			s.Kill()
			return s, fmt.Errorf("server did not open its ports within 180s; stderr: %s", tail(s.StderrPath))
		}
		time.Sleep(50 * time.Millisecond)
	}
}

func dial(addr string) bool {
	c, err := net.DialTimeout("tcp", addr, 500*time.Millisecond)
	if err != nil {
		return false
	}
	c.Close()
	return true
}

// CanBind reports whether addr can be bound right now.
func CanBind(addr string) error {
	l, err := net.Listen("tcp", addr)
	if err != nil {
		return err
	}
	return l.Close()
}

func tail(path string) string {
	b, _ := os.ReadFile(path)
	if len(b) > 1500 {
		b = b[len(b)-1500:]
	}
	return string(b)
}

func (s *Server) Exited() bool {
	select {
	case <-s.done:
		return true
	default:
		return false
	}
}

// Signal sends sig to the child.
func (s *Server) Signal(sig syscall.Signal) error { return s.Cmd.Process.Signal(sig) }

// Wait waits for the child to exit; ok=false when the watchdog fired.
func (s *Server) Wait(d time.Duration) (exit int, ok bool) {
	select {
	case <-s.done:
	case <-time.After(d):
		return 0, false
	}
	if s.exitErr != nil {
		if ee, isExit := s.exitErr.(*exec.ExitError); isExit {
			return ee.ExitCode(), true
		}
		return -1, true
	}
	return 0, true
}

// Kill terminates the child (SIGQUIT first so that a goroutine dump lands in stderr).
func (s *Server) Kill() {
	if s.Exited() {
		return
	}
	s.Cmd.Process.Signal(syscall.SIGQUIT)
	select {
	case <-s.done:
	case <-time.After(5 * time.Second):
		s.Cmd.Process.Kill()
		<-s.done
	}
}

// Stderr returns what the child wrote to stderr so far.
func (s *Server) Stderr() string {
	b, _ := os.ReadFile(s.StderrPath)
	return string(b)
}

func (s *Server) Stdout() string {
	b, _ := os.ReadFile(s.StdoutPath)
	return string(b)
}

// CrashMarks scans the child's output for signs of a crash.
func (s *Server) CrashMarks() []string { return CrashMarksIn(s.Stderr() + s.Stdout()) }

// CrashMarksIn lists the marks of a Go runtime crash found in process output.
func CrashMarksIn(text string) []string {
	var out []string
	for _, m := range []string{"panic:", "fatal error:", "http: panic serving", "runtime error:", "concurrent map"} {
		if strings.Contains(text, m) {
			out = append(out, m)
		}
	}
	return out
}
