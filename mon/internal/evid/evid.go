// Package evid writes evidence files, replay files and verdict lines.
package evid

import (
	"crypto/sha256"
	"encoding/binary"
	"encoding/json"
	"fmt"
	"os"
	"path/filepath"
	"sort"
	"strings"
	"sync"
	"time"
)

// Tally counts outcomes of one workload class.
type Tally struct {
	Cases    int `json:"cases"`
	Accepted int `json:"accepted"`
	Rejected int `json:"rejected"`
}

// Finding is one entry of known_findings.json.
type Finding struct {
	Status   string `json:"status"` // "known" | "fixed"
	Property string `json:"property"`
	Match    string `json:"match"` // substring of the violation's witness key
	What     string `json:"what"`
	Commit   string `json:"commit,omitempty"`
}

// Run accumulates what one check invocation observed.
type Run struct {
	Prop, Tier, Level string
	Seed              int64
	OutDir            string // /verif
	Only              string // replay filter: only cases whose key has this prefix run

	mu           sync.Mutex
	start        time.Time
	evals        int
	sigs         map[uint64]struct{}
	classes      map[string]*Tally
	samples      []any
	sampleByCls  map[string]int
	extra        map[string]any
	rule         string
	assumptions  []string
	violations   int
	knownHits    int
	inconclusive int
	findings     []Finding
	requirements []string
	failedReqs   []string
	hist         map[string]map[string]int
	vioKeys      map[string]bool
}

func New(prop, tier, level string, seed int64, outDir string) *Run {
	r := &Run{Prop: prop, Tier: tier, Level: level, Seed: seed, OutDir: outDir,
		start: time.Now(), sigs: map[uint64]struct{}{}, classes: map[string]*Tally{},
		sampleByCls: map[string]int{}, extra: map[string]any{}, hist: map[string]map[string]int{},
		vioKeys: map[string]bool{}}
	if b, err := os.ReadFile(filepath.Join(outDir, "known_findings.json")); err == nil {
		var all []Finding
		if json.Unmarshal(b, &all) == nil {
			for _, f := range all {
				if f.Property == prop {
					r.findings = append(r.findings, f)
				}
			}
		}
	}
	return r
}

func (r *Run) Rule(s string) { r.mu.Lock(); r.rule = s; r.mu.Unlock() }
func (r *Run) Assume(s ...string) {
	r.mu.Lock()
	r.assumptions = append(r.assumptions, s...)
	r.mu.Unlock()
}
func (r *Run) Set(k string, v any) { r.mu.Lock(); r.extra[k] = v; r.mu.Unlock() }

// Add increments an integer counter kept in the evidence's coverage object.
func (r *Run) Add(k string, n int) {
	r.mu.Lock()
	if cur, ok := r.extra[k].(int); ok {
		r.extra[k] = cur + n
	} else {
		r.extra[k] = n
	}
	r.mu.Unlock()
}

// Stage logs the end of a workload stage with its elapsed wall time (stderr) and records it.
func (r *Run) Stage(name string) {
	r.mu.Lock()
	el := time.Since(r.start).Seconds()
	if r.extra["stage_end_s"] == nil {
		r.extra["stage_end_s"] = map[string]float64{}
	}
	r.extra["stage_end_s"].(map[string]float64)[name] = float64(int(el*10)) / 10
	r.mu.Unlock()
	fmt.Fprintf(os.Stderr, "  [%s] stage %s done at %.1fs\n", r.Prop, name, el)
}

// GetInt reads an integer counter.
func (r *Run) GetInt(k string) int {
	r.mu.Lock()
	defer r.mu.Unlock()
	v, _ := r.extra[k].(int)
	return v
}

// Max keeps the maximum of an integer counter.
func (r *Run) Max(k string, n int) {
	r.mu.Lock()
	if cur, ok := r.extra[k].(int); !ok || n > cur {
		r.extra[k] = n
	}
	r.mu.Unlock()
}

// Hist increments histogram `name` at bucket `key`.
func (r *Run) Hist(name, key string) {
	r.mu.Lock()
	if r.hist[name] == nil {
		r.hist[name] = map[string]int{}
	}
	r.hist[name][key]++
	r.mu.Unlock()
}

// Wants reports whether the case with this key should run (replay filter).
func (r *Run) Wants(key string) bool {
	if r.Only == "" {
		return true
	}
	// the stored key of a violation is the case key plus a suffix naming the failed sub-check, and monitors
	// gate whole groups by a shorter key: match in both directions on "/" boundaries
	return strings.HasPrefix(key+"/", r.Only+"/") || strings.HasPrefix(r.Only+"/", key+"/")
}

// Case records one executed case. sig is the canonical description used for
// the distinct count (ignored when nontrivial is false); sample is stored for a
// few cases per class.
func (r *Run) Case(class string, nontrivial bool, sig string, accepted bool, sample any) {
	r.mu.Lock()
	defer r.mu.Unlock()
	r.evals++
	t := r.classes[class]
	if t == nil {
		t = &Tally{}
		r.classes[class] = t
	}
	t.Cases++
	if accepted {
		t.Accepted++
	} else {
		t.Rejected++
	}
	if nontrivial {
		h := sha256.Sum256([]byte(class + "\x00" + sig))
		r.sigs[binary.BigEndian.Uint64(h[:8])] = struct{}{}
	}
	if sample != nil && r.sampleByCls[class] < 1 && len(r.samples) < 40 {
		r.sampleByCls[class]++
		r.samples = append(r.samples, map[string]any{"class": class, "accepted": accepted, "case": sample})
	}
}

// Inconclusive records an execution whose outcome could not be decided
// (watchdog, child failed to start, port stolen).
func (r *Run) Inconclusive(what string) {
	r.mu.Lock()
	r.inconclusive++
	r.mu.Unlock()
	fmt.Fprintf(os.Stderr, "INCONCLUSIVE property=%s %s\n", r.Prop, what)
}

// Violate records a violation with its witness. key identifies the failing
// input/call site/history (matched against known_findings.json); witness is
// written to a replay file.
func (r *Run) Violate(key, what string, witness any) {
	r.mu.Lock()
	defer r.mu.Unlock()
	for _, f := range r.findings {
		if f.Status == "known" && f.Match != "" && strings.Contains(key, f.Match) {
			r.knownHits++
			if !r.vioKeys["known:"+f.Match] {
				r.vioKeys["known:"+f.Match] = true
				fmt.Printf("KNOWN-FINDING: property=%s %s\n", r.Prop, f.What)
			}
			return
		}
	}
	r.violations++
	if r.violations > 25 { // keep output bounded; the count is still exact
		return
	}
	dir := filepath.Join(r.OutDir, "replays", r.Prop)
	os.MkdirAll(dir, 0o755)
	path := filepath.Join(dir, fmt.Sprintf("%s-seed%d-%03d.json", r.Tier, r.Seed, r.violations))
	b, _ := json.MarshalIndent(map[string]any{
		"property": r.Prop, "tier": r.Tier, "seed": r.Seed, "key": key, "what": what, "witness": witness,
	}, "", " ")
	os.WriteFile(path, b, 0o644)
	fmt.Printf("VIOLATION property=%s replay=%s\n", r.Prop, path)
	fmt.Fprintf(os.Stderr, "  violation key=%s: %s\n", key, what)
}

// Require asserts minimum coverage; a run that observed too little does not
// exit 0.
func (r *Run) Require(name string, got, min int) {
	r.mu.Lock()
	defer r.mu.Unlock()
	r.requirements = append(r.requirements, fmt.Sprintf("%s: got %d, need >= %d", name, got, min))
	if got < min && r.Only == "" {
		r.failedReqs = append(r.failedReqs, fmt.Sprintf("%s: got %d, need >= %d", name, got, min))
	}
}

func (r *Run) Violations() int { r.mu.Lock(); defer r.mu.Unlock(); return r.violations }

// ClassTally returns a copy of the tally of a class.
func (r *Run) ClassTally(class string) Tally {
	r.mu.Lock()
	defer r.mu.Unlock()
	if t := r.classes[class]; t != nil {
		return *t
	}
	return Tally{}
}

// Finish writes the evidence file and returns the process exit code.
func (r *Run) Finish() int {
	r.mu.Lock()
	defer r.mu.Unlock()
	cov := map[string]any{}
	for k, v := range r.extra {
		cov[k] = v
	}
	for k, v := range r.hist {
		cov[k] = v
	}
	cov["evaluations"] = r.evals
	cov["distinct_nontrivial"] = len(r.sigs)
	cov["rule"] = r.rule
	cov["samples"] = r.samples
	names := make([]string, 0, len(r.classes))
	for k := range r.classes {
		names = append(names, k)
	}
	sort.Strings(names)
	cls := map[string]*Tally{}
	for _, k := range names {
		cls[k] = r.classes[k]
	}
	cov["classes"] = cls
	cov["inconclusive"] = r.inconclusive
	cov["known_finding_hits"] = r.knownHits
	cov["coverage_requirements"] = r.requirements
	if len(r.failedReqs) > 0 {
		cov["coverage_requirements_failed"] = r.failedReqs
	}
	ev := map[string]any{
		"property_id": r.Prop, "tier": r.Tier, "seed": r.Seed, "level": r.Level,
		"coverage": cov, "assumptions": r.assumptions,
		"wall_s": time.Since(r.start).Seconds(), "violations": r.violations,
	}
	if r.Only == "" {
		os.MkdirAll(filepath.Join(r.OutDir, "evidence"), 0o755)
		b, _ := json.MarshalIndent(ev, "", " ")
		os.WriteFile(filepath.Join(r.OutDir, "evidence", r.Prop+".json"), append(b, '\n'), 0o644)
	}
	fmt.Fprintf(os.Stderr, "%s %s seed=%d: evaluations=%d distinct_nontrivial=%d violations=%d known=%d inconclusive=%d wall=%.1fs\n",
		r.Prop, r.Tier, r.Seed, r.evals, len(r.sigs), r.violations, r.knownHits, r.inconclusive, time.Since(r.start).Seconds())
	if r.violations > 0 {
		return 1
	}
	if len(r.failedReqs) > 0 {
		for _, f := range r.failedReqs {
			fmt.Fprintf(os.Stderr, "NO-COVERAGE property=%s %s\n", r.Prop, f)
		}
		return 2
	}
	return 0
}
